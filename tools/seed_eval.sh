#!/bin/sh
# tools/seed_eval.sh <ID> [props...]: confirm a seeded change (tests pass, demo fails with / passes without),
# run the checks against it, file it under seeded/<ID>/.
ID=$1; shift; PROPS=${*:-$ID}
SRC=${SEEDSRC:-/tmp/seedout}/$ID; DST=/verif/seeded/${SEEDNAME:-$ID}
[ -f $SRC/patch.diff ] || { echo "no patch for $ID"; exit 2; }
mkdir -p $DST
WT=$(mktemp -d /tmp/gtirbverif-sv-XXXX); rmdir $WT
git -C /repo worktree add -q $WT HEAD
( cd $WT && git apply $SRC/patch.diff ) || { echo "patch does not apply"; git -C /repo worktree remove --force $WT; exit 2; }
T=$(/tmp/seedtools/runtests.sh $WT | tail -1)
/tmp/seedtools/rundemo.sh /repo $SRC/demo.py > $SRC/demo_clean.txt 2>&1; RC0=$?
/tmp/seedtools/rundemo.sh $WT $SRC/demo.py > $SRC/demo_seeded.txt 2>&1; RC1=$?
git -C /repo worktree remove --force $WT; git -C /repo worktree prune
echo "$ID: repo tests on seeded tree: $T; demo on clean tree rc=$RC0; demo on seeded tree rc=$RC1"
cp $SRC/patch.diff $SRC/demo.py $DST/ ; cp $SRC/notes.md $DST/notes.md 2>/dev/null
RES=""
for P in $PROPS; do
  VERIF_EVID=/tmp/gtirbverif-seed-evid/$ID /verif/tools/with_patch.sh $SRC/patch.diff $P quick > $SRC/check_$P.txt 2>&1; RC=$?
  N=$(grep -c "^VIOLATION" $SRC/check_$P.txt)
  echo "  check $P: exit $RC, $N VIOLATION lines; $(grep -m1 '^VIOLATION' -A1 $SRC/check_$P.txt | tail -1 | cut -c1-200)"
  RES="$RES{\"check\": \"$P\", \"exit\": $RC, \"violation_lines\": $N},"
done
python3 - "$ID" "$T" "$RC0" "$RC1" "[${RES%,}]" <<'PY'
import json, sys, os
i, t, rc0, rc1, res = sys.argv[1:6]
src = os.environ.get('SEEDSRC', '/tmp/seedout'); notes = open('%s/%s/notes.md' % (src, i)).read() if os.path.exists('%s/%s/notes.md' % (src, i)) else ''
meta = {"property": i, "breaks": i, "needs_to_manifest": notes[:1500],
        "confirmed": {"repo_tests_on_seeded_tree": t, "demo_rc_clean_tree": int(rc0), "demo_rc_seeded_tree": int(rc1)},
        "ran": ["/tmp/seedtools/runtests.sh <worktree with patch>", "rundemo.sh /repo demo.py", "rundemo.sh <worktree> demo.py",
                "tools/with_patch.sh patch.diff <property> quick"],
        "checks": json.loads(res)}
json.dump(meta, open('/verif/seeded/%s/meta.json' % os.environ.get('SEEDNAME', i), 'w'), indent=1)
PY
