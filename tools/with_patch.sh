#!/bin/sh
# tools/with_patch.sh <patch.diff> <property> [tier]
# Run one check against a scratch worktree of /repo with a patch applied (never touches /repo's tree).
set -e
PATCH=$(readlink -f "$1"); PROP=$2; TIER=${3:-quick}
WT=$(mktemp -d /tmp/gtirbverif-wt-XXXX)
rmdir "$WT"
git -C /repo worktree add -q "$WT" HEAD
trap 'git -C /repo worktree remove --force "$WT" >/dev/null 2>&1; git -C /repo worktree prune' EXIT
git -C "$WT" apply "$PATCH"
cd "$(dirname "$0")/.."
VERIF_REPO="$WT" VERIF_EVID="${VERIF_EVID:-/tmp/gtirbverif-evid}" ./check "$PROP" --tier "$TIER"
