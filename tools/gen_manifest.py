#!/usr/bin/env python3
"""Writes /verif/MANIFEST.json from the table below (kept here so it is always schema-valid)."""
import json
import os

HERE = os.path.dirname(os.path.dirname(os.path.abspath(__file__)))
TRUST = ("Bounded: exhaustive only inside the listed small configurations, sampled beyond. Trusted: TLC, the "
         "CommunityModules Json module, CPython, protobuf/intervaltree/sortedcontainers/networkx, and the "
         "~150-line proto3 reader that regenerates *_pb2.py from /repo/proto (no protoc in the sandbox).")

CHECKS = {
    "C03": ("model_checking",
            "TLC checks CacheInv (UUID table = containment reachability, per IR) on every reachable state of the "
            "bounded object model (whole-subtree moves between two IRs from either end of all six relations); every "
            "transition TLC prints for the per-relation and module-list configurations is executed on real gtirb "
            "objects and get_by_uuid is compared for every UUID of the universe (plus foreign ones) on every IR "
            "after every step; random behaviours of the composed model are replayed the same way.",
            "TLA+ spec Gtirb.tla: TLC invariant checking + exhaustive transition-graph replay into the code"),
    "C04": ("model_checking",
            "TLC checks ForestInv (both ends of every relation agree, one parent, no duplicates) on the bounded "
            "model; every printed transition is replayed on real objects and parent attributes, collection "
            "contents (iteration, len, in), derived .ir/.module/.section and all aggregate iterators of every node "
            "are compared with the spec's post-state, so nodes not named by an operation must not move.",
            "TLA+ spec Gtirb.tla: TLC invariant checking + exhaustive transition-graph replay into the code"),
    "C16": ("model_checking",
            "Every method of MutableSet (5 owning sets), MutableSequence (IR.modules) and MutableMapping "
            "(symbolic_expressions) is a spec action whose result, exception class and resulting contents are "
            "defined by built-in semantics plus move-on-insert; TLC enumerates every (state, method, arguments) of "
            "the bounded configurations and each is executed on the real collections.",
            "TLA+ spec Gtirb.tla: exhaustive transition-graph replay into the code"),
}

LOOK = ("TLA+ spec Gtirb.tla + GtirbJudge.tla: exhaustive transition-graph replay into the code, every lookup "
        "answer judged by TLC against the spec's fresh-scan operators")
CHECKS.update({
    "C05": ("model_checking",
            "TLC enumerates every history of offset/size/address edits and block moves of the bounded geometry "
            "configurations (and simulates the composed one); each transition is executed on real objects, and after "
            "every step seeded batches of all 18 block-lookup methods at all four scopes are answered by the code and "
            "judged by TLC against BlocksOn/BlocksAt/...Off (exactly-once, kind filter, zero-size rule, Must/May "
            "sandwich above interval scope), under address bases 0 and 2^64-40 (all four in the thorough tier).", LOOK),
    "C06": ("model_checking",
            "Same executions as C05 with intervals moving between sections and addresses going to and from None; "
            "byte_intervals_on/at, sections_on/at and Section.address/size answers are judged by TLC against "
            "IvsOn/IvsAt/SecsOn/SecsAt/SecAddr/SecSize.", LOOK),
    "C10": ("model_checking",
            "TLC checks NameIdxInv/RefIdxInv (both symbol indexes equal a scan) on every reachable state; every "
            "transition (rename, payload change between block/proxy/int/None, symbol and block moves between modules) "
            "is replayed and symbols_named(name) for every name and references of every block are compared with the "
            "spec's scan after every step.",
            "TLA+ spec Gtirb.tla: TLC invariant checking + exhaustive transition-graph replay into the code"),
    "C11": ("model_checking",
            "The CFG is a spec variable holding a set of <<source, target, label>>; every MutableSet method is an "
            "action; TLC enumerates all edge sets over 2-3 nodes (attached/detached, self loops, absent vs all-false "
            "label) and each transition is replayed: membership of every edge, len, iteration without duplicates, "
            "out_edges/in_edges of every node and the blocks' own incoming/outgoing edges are compared.",
            "TLA+ spec Gtirb.tla: exhaustive transition-graph replay into the code"),
    "C12": ("model_checking",
            "Lookups are spec actions that change only the lazy-index bookkeeping (materialised?, pending events); TLC "
            "enumerates every placement of lookups among edits, the walk executes each on real objects (all three "
            "get() branches confirmed by the hook), TLC judges every answer, a twin receiving the same edits and no "
            "lookups must give the same final answers, and LazyIndex.tla model-checks the design "
            "(what get() would return = fresh scan) over all schedules.",
            "TLA+ specs Gtirb.tla (Lookup actions) + LazyIndex.tla: model checking, schedule enumeration replayed into the code"),
    "C13": ("model_checking",
            "All MutableMapping operations on symbolic_expressions plus interval address edits and moves are enumerated "
            "by TLC and replayed; symbolic_expressions_at(_offset) answers at all scopes are judged by TLC against "
            "SymxAt/SymxAtOff (exact and ascending at interval scope, sandwich above).", LOOK),
    "C19": ("model_checking",
            "TLC checks BytesInv (stored bytes <= size) over all sequences of size/initialized_size/contents/offset/"
            "block-size/address edits and reloads; each transition is replayed and contents, block contents, block "
            "addresses are compared; contains_offset/contains_address answers are judged by TLC.", LOOK),
})
CHECKS.update({
    "C07": ("model_checking",
            "AuxWire.tla defines Enc/Dec for the whole type grammar from the documented wire format; TLC proves "
            "Dec(Enc(v)) = v with full consumption on every generated (type, value) and judges the codec: the value "
            "Python decodes from its own bytes and from the spec's bytes must equal v (floats as bit patterns, sets and "
            "mappings without order), streams must be consumed exactly, and UUID/Offset entries must come back as Node "
            "objects iff attached. Inputs: every leaf type x boundary values, every container over every leaf, every "
            "variant alternative, seeded random nestings.",
            "TLA+ spec AuxWire.tla + AuxWireJudge.tla: TLC evaluates the wire format on recorded codec inputs/outputs"),
    "C08": ("model_checking",
            "Same inputs as C07 judged on bytes: TLC requires every byte string the Python encoder produced to decode "
            "under the spec's Dec completely to v and to re-encode to itself with the spec's length (for order-free "
            "types: exact equality with Enc); the specification acts as the independent writer whose bytes Python must "
            "decode; the repository's Java codecs decode Python's and the spec's bytes and Python decodes Java's bytes, "
            "all judged by TLC.",
            "TLA+ spec AuxWire.tla + AuxWireJudge.tla: TLC-computed expected bytes vs Python and Java codecs"),
    "C15": ("model_checking",
            "TypeName.tla gives the grammar three ways (generative set, recursive descent, push-down recogniser); TLC "
            "checks they agree on every string up to length 7 (8 thorough) over {a,b,<,>,','} and prints verdict and "
            "tree for each, which _parse_type must reproduce (TypeNameError iff rejected); long/deep/unicode names and "
            "their mutations are parsed by the code and judged by TLC.",
            "TLA+ spec TypeName.tla: exhaustive string enumeration by TLC + TLC-judged recorded parses"),
})
PROTO = ("TLA+ spec Gtirb.tla (Reload/LoadFault actions, MsgOf message mapping): TLC-enumerated perturbations and "
         "behaviours replayed through real save/load under both protobuf runtimes")
CHECKS.update({
    "C01": ("model_checking",
            "Reload (save then load of a self-contained IR) is a spec action that leaves the abstract state unchanged; TLC "
            "enumerates every single-field perturbation of a populated IR (every enum constant, every flag/attribute "
            "number, boundary integers and strings, every edge-label value) followed by Reload, and random behaviours "
            "of the composed model with frequent Reloads; the loaded IR is projected by UUID/identity and compared with "
            "the spec state, deep_eq must hold both ways, and re-saving must give the same content. Both protobuf "
            "runtimes (upb, pure Python).", PROTO),
    "C02": ("model_checking",
            "MsgOf(ir) in Gtirb.tla is the gtirb.proto.IR message field by field; at every Reload the saved bytes are "
            "split into header and message, parsed with the generated classes and compared with MsgOf (writer alone); a "
            "message built from MsgOf by an independent writer (generated classes only, shuffled repeated fields, "
            "duplicates, arbitrary vertex list, stray address without has_address, present all-default label) is loaded "
            "and compared (reader alone). Enum domains come from /repo/proto, so every declared constant is exercised.",
            PROTO),
    "C09": ("model_checking",
            "Objects reached through references after every load are mapped to node ids by identity and must be the "
            "attached objects (a copy is unprojectable = violation); AuxData UUID/Offset entries at IR and module level "
            "must decode to the attached object iff get_by_uuid finds one; TLC enumerates one dangling and one ill-typed "
            "reference for every reference site of every kind (LoadFault) and the loader must raise "
            "DeserializationError.", PROTO),
    "C14": ("model_checking",
            "AuxLife.tla models the table life cycle in two layers (what save must write vs. the lazy-container "
            "mechanism); TLC checks SaveMeetsReq/NeverStale on all histories over 3 generations for every table class "
            "(known, unknown at top level, unknown reached, unknown unreached; canonical and non-canonical bytes), exhibits "
            "the counterexample of the reach-only design, and every printed transition is replayed through real "
            "load/save at IR and module level with concrete representatives.",
            "TLA+ spec AuxLife.tla: TLC invariant checking + exhaustive transition-graph replay through real files"),
    "C17": ("fault_enumeration",
            "TLC enumerates every structural fault (LoadFault: dangling/ill-typed reference per site, duplicated UUIDs, "
            "unknown enum number, wrong-length UUID, magic/version variations) with the outcome the property prescribes; "
            "valid files are corrupted at byte level (every truncation, bit flips, byte substitutions, header variations) "
            "and loaded under a watchdog; every outcome is judged by TLC (CoherentJudge.tla: ValueError for a bad header, "
            "no hang, and a returned IR must satisfy Forest/Cache/RefKinds/Bytes/Resave).",
            "TLA+ specs Gtirb.tla (LoadFault) + CoherentJudge.tla: TLC-enumerated faults, TLC-judged outcomes"),
    "C18": ("model_checking",
            "After Reload the pre-load IR is kept as a frozen twin; the spec stores Content(ir) in the variable shadow and "
            "predicts deep_eq(live, twin) = (Content(live) = Content(twin)); TLC enumerates every single operation after "
            "the load and every pair of a smaller vocabulary; live.deep_eq(twin) and twin.deep_eq(live) are both "
            "executed after each and must equal the prediction.", PROTO),
})
NOT_YET = {}


def main():
    props = [json.loads(l) for l in open(os.path.join(HERE, "properties.jsonl"))]
    checks = []
    for p in props:
        pid = p["id"]
        if pid not in CHECKS:
            continue
        level, text, tech = CHECKS[pid]
        checks.append({
            "property_id": pid,
            "quick_cmd": "./check %s --tier quick" % pid,
            "thorough_cmd": "./check %s --tier thorough" % pid,
            "evidence_file": "/verif/evidence/%s.json" % pid,
            "replay_cmd_template": "./check {property} --replay {path}",
            "engine": "tlc",
            "level_claimed": {"category": level, "text": text, "design_ref": "DESIGN.md section 5, " + pid},
            "level_note": TRUST,
            "technique": tech,
        })
    na = [{"property_id": p["id"], "reason": NOT_YET.get(p["id"], "check under construction in this session; not claimed yet")}
          for p in props if p["id"] not in CHECKS]
    m = {
        "version": 1,
        "setup_cmd": "./setup.sh",
        "hooks": {
            "guard": "GTIRB_VERIF_TRACE",
            "enable": "checks copy /repo/python/gtirb into a scratch package (generated *_pb2.py, version.py) and run "
                      "it with GTIRB_VERIF_TRACE set; with the variable unset the hooks are inert",
            "baseline_off_cmd": "cd /repo && env -u GTIRB_VERIF_TRACE /venv/bin/python -m pytest -ra -q -p no:cacheprovider --timeout=900 --continue-on-collection-errors",
            "source_commits": ["bf6fb17"],
            "add_only": True,
        },
        "engines": [{"name": "tlc", "path": "/opt/veriftools/tla/tla2tools.jar",
                     "serves_properties": sorted(CHECKS),
                     "kind_free_text": "TLC 1.8 explicit-state model checker: invariant checking of the TLA+ "
                                       "specifications under /verif/spec, generation of transitions/behaviours replayed "
                                       "into the implementation, and judging of recorded executions"}],
        "checks": checks,
        "notes": "See DESIGN.md. ./check <id> --tier quick|thorough; exit 0 held / 1 violation / 2 machinery failure.",
        "not_applicable": na,
    }
    with open(os.path.join(HERE, "MANIFEST.json"), "w") as fh:
        json.dump(m, fh, indent=1)


if __name__ == "__main__":
    main()
