#!/usr/bin/env python3
"""Writes /verif/MANIFEST.json from the table below (kept here so it is always schema-valid)."""
import json
import os

HERE = os.path.dirname(os.path.dirname(os.path.abspath(__file__)))
TRUST = ("Bounded: exhaustive only inside the listed small configurations, sampled beyond. Trusted: TLC, the "
         "CommunityModules Json module, CPython, protobuf/intervaltree/sortedcontainers/networkx, and the "
         "~150-line proto3 reader that regenerates *_pb2.py from /repo/proto (no protoc in the sandbox).")

CHECKS = {
    "C03": ("model_checking",
            "TLC checks CacheInv (UUID table = containment reachability, per IR) on every reachable state of the "
            "bounded object model (whole-subtree moves between two IRs from either end of all six relations); every "
            "transition TLC prints for the per-relation and module-list configurations is executed on real gtirb "
            "objects and get_by_uuid is compared for every UUID of the universe (plus foreign ones) on every IR "
            "after every step; random behaviours of the composed model are replayed the same way.",
            "TLA+ spec Gtirb.tla: TLC invariant checking + exhaustive transition-graph replay into the code"),
    "C04": ("model_checking",
            "TLC checks ForestInv (both ends of every relation agree, one parent, no duplicates) on the bounded "
            "model; every printed transition is replayed on real objects and parent attributes, collection "
            "contents (iteration, len, in), derived .ir/.module/.section and all aggregate iterators of every node "
            "are compared with the spec's post-state, so nodes not named by an operation must not move.",
            "TLA+ spec Gtirb.tla: TLC invariant checking + exhaustive transition-graph replay into the code"),
    "C16": ("model_checking",
            "Every method of MutableSet (5 owning sets), MutableSequence (IR.modules) and MutableMapping "
            "(symbolic_expressions) is a spec action whose result, exception class and resulting contents are "
            "defined by built-in semantics plus move-on-insert; TLC enumerates every (state, method, arguments) of "
            "the bounded configurations and each is executed on the real collections.",
            "TLA+ spec Gtirb.tla: exhaustive transition-graph replay into the code"),
}

NOT_YET = {}


def main():
    props = [json.loads(l) for l in open(os.path.join(HERE, "properties.jsonl"))]
    checks = []
    for p in props:
        pid = p["id"]
        if pid not in CHECKS:
            continue
        level, text, tech = CHECKS[pid]
        checks.append({
            "property_id": pid,
            "quick_cmd": "./check %s --tier quick" % pid,
            "thorough_cmd": "./check %s --tier thorough" % pid,
            "evidence_file": "/verif/evidence/%s.json" % pid,
            "replay_cmd_template": "./check {property} --replay {path}",
            "engine": "tlc",
            "level_claimed": {"category": level, "text": text, "design_ref": "DESIGN.md section 5, " + pid},
            "level_note": TRUST,
            "technique": tech,
        })
    na = [{"property_id": p["id"], "reason": NOT_YET.get(p["id"], "check under construction in this session; not claimed yet")}
          for p in props if p["id"] not in CHECKS]
    m = {
        "version": 1,
        "setup_cmd": "./setup.sh",
        "hooks": {
            "guard": "GTIRB_VERIF_TRACE",
            "enable": "checks copy /repo/python/gtirb into a scratch package (generated *_pb2.py, version.py) and run "
                      "it with GTIRB_VERIF_TRACE set; with the variable unset the hooks are inert",
            "baseline_off_cmd": "cd /repo && env -u GTIRB_VERIF_TRACE /venv/bin/python -m pytest -ra -q -p no:cacheprovider --timeout=900 --continue-on-collection-errors",
            "source_commits": [],
            "add_only": True,
        },
        "engines": [{"name": "tlc", "path": "/opt/veriftools/tla/tla2tools.jar",
                     "serves_properties": sorted(CHECKS),
                     "kind_free_text": "TLC 1.8 explicit-state model checker: invariant checking of the TLA+ "
                                       "specifications under /verif/spec, generation of transitions/behaviours replayed "
                                       "into the implementation, and judging of recorded executions"}],
        "checks": checks,
        "notes": "See DESIGN.md. ./check <id> --tier quick|thorough; exit 0 held / 1 violation / 2 machinery failure.",
        "not_applicable": na,
    }
    with open(os.path.join(HERE, "MANIFEST.json"), "w") as fh:
        json.dump(m, fh, indent=1)


if __name__ == "__main__":
    main()
