#!/usr/bin/env python3
"""tools/seed_recheck.py [--lanes N] [seed names...]: run the quick checks recorded in seeded/<name>/meta.json against
seeded/<name>/patch.diff again (scratch worktree, never /repo's tree) and rewrite the "checks" entry of meta.json."""
import concurrent.futures as cf
import json
import os
import subprocess
import sys

V = os.path.dirname(os.path.dirname(os.path.abspath(__file__)))


def one(name):
    d = os.path.join(V, "seeded", name)
    meta = json.load(open(os.path.join(d, "meta.json")))
    out = []
    for c in meta["checks"]:
        p = c["check"]
        env = dict(os.environ, VERIF_EVID="/tmp/gtirbverif-seed-evid/%s-%s" % (name, p))
        r = subprocess.run([os.path.join(V, "tools", "with_patch.sh"), os.path.join(d, "patch.diff"), p, "quick"],
                           capture_output=True, text=True, env=env)
        lines = [x for x in r.stdout.splitlines() if x.startswith("VIOLATION")]
        first = ""
        if lines:
            i = r.stdout.splitlines().index(lines[0])
            first = (r.stdout.splitlines()[i + 1:i + 2] or [""])[0].strip()[:200]
        out.append({"check": p, "exit": r.returncode, "violation_lines": len(lines), "first": first})
        print("%s vs %s: exit %d, %d VIOLATION lines; %s" % (name, p, r.returncode, len(lines), first), flush=True)
    meta["checks"] = out
    json.dump(meta, open(os.path.join(d, "meta.json"), "w"), indent=1)
    return name


def main():
    args = sys.argv[1:]
    lanes = 3
    if args[:1] == ["--lanes"]:
        lanes = int(args[1])
        args = args[2:]
    names = args or sorted(n for n in os.listdir(os.path.join(V, "seeded")) if os.path.isdir(os.path.join(V, "seeded", n)))
    with cf.ThreadPoolExecutor(max_workers=lanes) as ex:
        list(ex.map(one, names))


if __name__ == "__main__":
    main()
