#!/bin/sh
# run every check of a tier (default quick), 3 at a time; summary on stdout, logs under /tmp/gtirbverif-logs
cd "$(dirname "$0")/.."
TIER=${1:-quick}
mkdir -p /tmp/gtirbverif-logs
ls_props() { python3 -c "import json; print(' '.join(c['property_id'] for c in json.load(open('MANIFEST.json'))['checks']))"; }
echo $(ls_props) | tr ' ' '\n' | xargs -P ${VERIF_LANES:-3} -I{} sh -c './check {} --tier '"$TIER"' > /tmp/gtirbverif-logs/{}.'"$TIER"'.log 2>&1; echo "{} exit $?"'
