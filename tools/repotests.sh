#!/bin/sh
# run the repository's python tests against a package built from /repo's working tree
set -e
D=$(mktemp -d /tmp/gtirbverif-rt-XXXX)
cd /verif && /venv/bin/python -c "
from harness import build
build.build_package('$D/pkg')
"
cp -r /repo/python/tests $D/tests
cd $D && PYTHONPATH=$D/pkg /venv/bin/python -m pytest -q -p no:cacheprovider tests 2>&1 | tail -5
rm -rf $D
