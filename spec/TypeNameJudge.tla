--------------------------- MODULE TypeNameJudge ---------------------------
(* code -> spec for C15: recorded calls of Serialization._parse_type on long,  *)
(* deep and unusual names; TLC evaluates the recursive-descent definition of  *)
(* TypeName.tla on each recorded string and compares verdict and tree.        *)
EXTENDS TypeName, IOUtils, TLCExt
Recs == ndJsonDeserialize(IOEnv.JUDGE_FILE)
VARIABLE idx
JInit == idx \in 1..Len(Recs) /\ str = <<>> /\ phase = "judge" /\ depth = 0
JNext == FALSE /\ UNCHANGED <<vars, idx>>
JSpec == JInit /\ [][JNext]_<<vars, idx>>
ROk(r) == /\ Accepts(r.s) = r.ok
          /\ r.ok => (TreeOf(r.s) = r.tree /\ Show(r.tree) = r.s)
Judge == ROk(Recs[idx]) \/ PrintT(ToJson([bad |-> idx, s |-> Recs[idx].s, spec_accepts |-> Accepts(Recs[idx].s)]))
Done == TLCGet("stats").generated >= 0 /\ PrintT(ToJson([judged |-> Len(Recs)]))
=============================================================================
