------------------------------- MODULE Gtirb -------------------------------
(***************************************************************************)
(* The GTIRB Python object model (clayne/gtirb, python/gtirb) as a state   *)
(* machine: one action per public mutation entry point, abstract (public)  *)
(* state plus the redundant state the implementation keeps (UUID table,    *)
(* symbol indexes, lazy-index counters).  See /verif/DESIGN.md section 2.  *)
(*                                                                         *)
(* Written to be bound: every action sets  op' = [name, args..., res]  --  *)
(* the record the conformance harness executes through the public API and  *)
(* whose  res  and post-state it compares with the real objects.           *)
(***************************************************************************)
EXTENDS Integers, Sequences, FiniteSets, TLC, Json, SequencesExt, FiniteSetsExt

CONSTANTS
  IRs, Modules, Sections, Intervals, CodeBlocks, DataBlocks, Proxies, Symbols, \* node identities (strings)
  Exprs,      \* identities of symbolic-expression objects
  Addrs,      \* abstract interval addresses (naturals); -1 is "no address"
  ISizes,     \* interval sizes
  Offs,       \* block offsets / symbolic-expression keys
  BSizes,     \* block sizes
  Names,      \* symbol names
  Name0,      \* the name symbols are constructed with (a member of Names)
  Pays,       \* non-node symbol payload tokens, e.g. "#0", "#7"  (integers as strings)
  Labels,     \* CFG edge label tokens; "nolabel" is the absent label
  Tags,       \* flag / aux-key / attribute tokens: naturals (k-th constant of the enum; aux key "k<k>")
  NFlags,     \* number of section-flag constants in the schema (tags of sections stay below it)
  ByteVals,   \* byte values stored in intervals
  MaxBytes,   \* longest stored byte string explored
  Families,   \* action families switched on: <<"f", "*">> or <<"f", rel>>
  ArgMax,     \* largest iterable passed to update/extend/|= ...
  ListIdx,    \* Python indices tried by the module-list operations
  Attach0,    \* initial attachment: sequence of <<child, parent>>, parents first
  LazyK,      \* saturation bound of the pending-event counters
  Queries,    \* <<lo, hi, step>> ranges the Lookup action may use
  EmitKeys,   \* which fields of the state record are printed
  ScalDom,    \* [field -> set of tokens a plain attribute is assigned from]
  ScalDef,    \* [field -> token the constructors default to]
  ExprKind,   \* [Exprs -> "ac" | "aa"]   SymAddrConst / SymAddrAddr
  ExprSym2,   \* [Exprs -> second symbol of an "aa" expression | NONE]
  Symx0,      \* initial symbolic expressions: set of <<interval, offset, expr>>
  Cfg0,       \* initial CFG edges: set of <<ir, <<source, target, label>>>>
  Pay0,       \* initial symbol payloads: set of <<symbol, payload>>
  Entry0,     \* initial entry points: set of <<module, code block>>
  Geom0,      \* initial interval geometry: set of <<interval, address, size>> (others: no address, size 0)
  ReloadWeight, \* how many times Reload is offered to the random simulator (>= 1)
  SweepOps,   \* operation names allowed as the later steps of a sweep
  SweepMode,  \* BOOLEAN: is this configuration a sweep
  Gate(_)     \* which operation names may be generated now (SweepGate; a trace specification narrows it)

NONE == "none"
NoneIdx == 99               \* a slice bound that was omitted (Python None)
NOADDR == -1

Blocks    == CodeBlocks \cup DataBlocks
CfgNodes  == CodeBlocks \cup Proxies
Referents == Blocks \cup Proxies
Nodes     == IRs \cup Modules \cup Sections \cup Intervals \cup Blocks \cup Proxies \cup Symbols
SetParents == Modules \cup Sections \cup Intervals
Children  == Nodes \ IRs
LazyOwners == Sections \cup Intervals
TagHolders == IRs \cup Modules \cup Sections \cup Exprs
ScalHolders == IRs \cup Modules \cup Sections \cup Symbols \cup CodeBlocks \cup DataBlocks \cup Exprs

\* The five set-valued parent/child relations ("mod", the IR's module list, is the sixth).
Rels == {"sec", "sym", "prx", "biv", "blk"}
RelParents(r) == CASE r = "sec" -> Modules [] r = "sym" -> Modules [] r = "prx" -> Modules
                   [] r = "biv" -> Sections [] r = "blk" -> Intervals
RelChildren(r) == CASE r = "sec" -> Sections [] r = "sym" -> Symbols [] r = "prx" -> Proxies
                    [] r = "biv" -> Intervals [] r = "blk" -> Blocks
RelOf(c) == CASE c \in Sections -> "sec" [] c \in Symbols -> "sym" [] c \in Proxies -> "prx"
              [] c \in Intervals -> "biv" [] c \in Blocks -> "blk" [] c \in Modules -> "mod"
ParentsOf(c) == IF c \in Modules THEN IRs ELSE RelParents(RelOf(c))

\* expression kinds / second symbols default to SymAddrConst / none when a configuration does not say
KindOf(e) == IF e \in DOMAIN ExprKind THEN ExprKind[e] ELSE "ac"
Sym2Of(e) == IF e \in DOMAIN ExprSym2 THEN ExprSym2[e] ELSE NONE
FieldsOf(h) == IF h \in IRs THEN {"version"}     \* "CUR" is this API's protobuf version
               ELSE IF h \in Modules THEN {"name", "binary_path", "isa", "file_format", "byte_order",
                                      "preferred_addr", "rebase_delta"}
               ELSE IF h \in Sections THEN {"name"}
               ELSE IF h \in Symbols THEN {"at_end"}
               ELSE IF h \in CodeBlocks THEN {"decode_mode"}
               \* "T": the node with this UUID, offset and size is (now) a CodeBlock -- the user replaced the object
               ELSE IF h \in DataBlocks THEN {"kindflip"}
               ELSE IF KindOf(h) = "aa" THEN {"xoffset", "xscale"} ELSE {"xoffset"}   \* expressions
NoShadow == [none |-> TRUE]
On(f) == <<f, "*">> \in Families
OnR(f, r) == <<f, "*">> \in Families \/ <<f, r>> \in Families
TrackLazy == On("lazy")

VARIABLES
  \* ---- containment (abstract, both ends kept separately as the code does)
  mods,    \* [IRs -> Seq(Modules)]                      IR.modules
  kids,    \* [SetParents -> SUBSET Children]            the five owning sets
  par,     \* [Children -> parent | NONE]                _ir/_module/_section/_byte_interval
  \* ---- implementation-shaped redundant state
  cache,   \* [IRs -> SUBSET Nodes]                      IR._local_uuid_cache (uuid of n |-> n)
  nidx,    \* [Modules -> [Names -> SUBSET Symbols]]     Module._symbol_name_index
  ridx,    \* [Modules -> [Referents -> SUBSET Symbols]] Module._symbol_referent_index
  built,   \* [LazyOwners -> BOOLEAN]                    LazyIntervalTree._interval_index is not None
  nev,     \* [LazyOwners -> 0..LazyK]                   len(_interval_events), saturating
  \* ---- attributes
  addr, isz,      \* interval address (NOADDR = None) and size
  off, bsz,       \* block offset and size
  sname, pay,     \* symbol name and payload (node id | token in Pays | NONE)
  symx,           \* [Intervals -> SUBSET (Offs \X Exprs)]  at most one pair per offset
  cfg,            \* [IRs -> SUBSET (CfgNodes \X CfgNodes \X Labels)]
  bytes,          \* [Intervals -> Seq(ByteVals)]
  tags,           \* [TagHolders -> SUBSET Tags]   flags / aux_data keys / expression attributes
  entry,          \* [Modules -> CodeBlocks \cup {NONE}]
  scal,           \* [ScalHolders -> [field -> token]]  plain attributes (names, enums, numbers)
  shadow,         \* [IRs -> content of the IR at its last save+load | NoShadow]   (deep_eq twin, C18)
  op              \* the last operation: what the harness executes and compares

treeVars == <<mods, kids, par, cache, nidx, ridx, nev>>
geomVars == <<addr, isz, off, bsz>>
symVars  == <<sname, pay>>
miscVars == <<scal, shadow>>
restVars == <<symx, cfg, bytes, tags, entry, scal, shadow>>
absView  == <<mods, kids, par, cache, nidx, ridx, built, nev, addr, isz, off, bsz,
              sname, pay, symx, cfg, bytes, tags, entry, scal, shadow>>
vars     == <<absView, op>>

Exc(c) == [exc |-> c]
Min2(a, b) == IF a < b THEN a ELSE b
Max2(a, b) == IF a > b THEN a ELSE b

-----------------------------------------------------------------------------
(* The part of the state the containment code reads and writes, as a record *)
(* so that multi-step operations (update, clear, slice assignment) compose. *)

S0 == [mods |-> mods, kids |-> kids, par |-> par, cache |-> cache,
       nidx |-> nidx, ridx |-> ridx, nev |-> nev]

Commit(S) == /\ mods' = S.mods /\ kids' = S.kids /\ par' = S.par /\ cache' = S.cache
             /\ nidx' = S.nidx /\ ridx' = S.ridx /\ nev' = S.nev

KidsOf(S, n) == IF n \in IRs THEN ToSet(S.mods[n])
                ELSE IF n \in SetParents THEN S.kids[n] ELSE {}

RECURSIVE Sub(_, _)
Sub(S, n) == {n} \cup UNION {Sub(S, k) : k \in KidsOf(S, n)}

RECURSIVE IrOf(_, _)
IrOf(S, n) == IF n = NONE THEN NONE ELSE IF n \in IRs THEN n ELSE IrOf(S, S.par[n])

CacheDel(S, ir, X) == IF ir = NONE THEN S ELSE [S EXCEPT !.cache[ir] = @ \ X]
CacheAdd(S, ir, X) == IF ir = NONE THEN S ELSE [S EXCEPT !.cache[ir] = @ \cup X]

\* pending-event counter of a lazy index (saturating; only tracked under "lazy")
Bump(S, x, k) == IF TrackLazy /\ x # NONE /\ k > 0
                 THEN [S EXCEPT !.nev[x] = Min2(@ + k, LazyK)] ELSE S
\* events appended by one _index_add / _index_discard of child c on its owner
EvOf(c) == IF c \in Blocks THEN 1 ELSE IF c \in Intervals /\ addr[c] # NOADDR THEN 1 ELSE 0

\* Module._index_discard / _index_add for a symbol
IdxDiscard(S, m, y) ==
  LET S1 == [S EXCEPT !.nidx[m][sname[y]] = @ \ {y}]
  IN IF pay[y] \in Referents THEN [S1 EXCEPT !.ridx[m][pay[y]] = @ \ {y}] ELSE S1
IdxAdd(S, m, y) ==
  LET S1 == [S EXCEPT !.nidx[m][sname[y]] = @ \cup {y}]
  IN IF pay[y] \in Referents THEN [S1 EXCEPT !.ridx[m][pay[y]] = @ \cup {y}] ELSE S1

\* discard(c) on the collection that owns c  (no-op when c has no parent)
Detach(S, c) ==
  LET p == S.par[c] IN
  IF p = NONE THEN S
  ELSE LET ir == IrOf(S, p)
           S1 == IF c \in Modules
                 THEN [S EXCEPT !.mods[p] = SelectSeq(@, LAMBDA x : x # c)]
                 ELSE [S EXCEPT !.kids[p] = @ \ {c}]
           S2 == [S1 EXCEPT !.par[c] = NONE]
           S3 == IF c \in Symbols THEN IdxDiscard(S2, p, c) ELSE S2
           S4 == Bump(S3, IF c \in Blocks \cup Intervals THEN p ELSE NONE, EvOf(c))
       IN CacheDel(S4, ir, Sub(S, c))

\* add(c) on parent p's owning set: a node owned elsewhere is moved
AttachSet(S, p, c) ==
  IF c \in Blocks /\ S.par[c] = p THEN S   \* _BlockSet.update skips present members
  ELSE
  LET S1 == Detach(S, c)
      S2 == [S1 EXCEPT !.kids[p] = @ \cup {c}, !.par[c] = p]
      S3 == IF c \in Symbols THEN IdxAdd(S2, p, c) ELSE S2
      S4 == Bump(S3, IF c \in Blocks \cup Intervals THEN p ELSE NONE, EvOf(c))
  IN CacheAdd(S4, IrOf(S4, p), Sub(S4, c))

RECURSIVE FoldDetach(_, _)
FoldDetach(S, cs) == IF cs = <<>> THEN S ELSE FoldDetach(Detach(S, Head(cs)), Tail(cs))
RECURSIVE FoldAttachSet(_, _, _)
FoldAttachSet(S, p, cs) ==
  IF cs = <<>> THEN S ELSE FoldAttachSet(AttachSet(S, p, Head(cs)), p, Tail(cs))

-----------------------------------------------------------------------------
(* Python list semantics for IR.modules (0-based indices, negatives, clamping) *)

PyInsertAt(s, k, e) == SubSeq(s, 1, k) \o <<e>> \o SubSeq(s, k + 1, Len(s))
PyClamp(i, n) == LET j == IF i < 0 THEN i + n ELSE i
                 IN IF j < 0 THEN 0 ELSE IF j > n THEN n ELSE j
InRange(i, n) == -n <= i /\ i < n
Norm(i, n) == IF i < 0 THEN i + n ELSE i            \* for InRange indices
PyAdj(n, i, st) == LET j == IF i < 0 THEN i + n ELSE i IN
                   IF st > 0 THEN (IF j < 0 THEN 0 ELSE IF j > n THEN n ELSE j)
                   ELSE (IF j < 0 THEN -1 ELSE IF j >= n THEN n - 1 ELSE j)
SliceStart(n, lo, st) == IF lo = NoneIdx THEN (IF st > 0 THEN 0 ELSE n - 1) ELSE PyAdj(n, lo, st)
SliceStop(n, hi, st)  == IF hi = NoneIdx THEN (IF st > 0 THEN n ELSE -1) ELSE PyAdj(n, hi, st)
RECURSIVE RangeSeq(_, _, _)
RangeSeq(a, b, st) == IF (st > 0 /\ a >= b) \/ (st < 0 /\ a <= b) THEN <<>>
                      ELSE <<a>> \o RangeSeq(a + st, b, st)
SliceIdx(n, lo, hi, st) == RangeSeq(SliceStart(n, lo, st), SliceStop(n, hi, st), st)  \* 0-based
GetSlice(L, lo, hi, st) == LET ix == SliceIdx(Len(L), lo, hi, st)
                           IN [k \in 1..Len(ix) |-> L[ix[k] + 1]]
IndexOf(L, e) == CHOOSE i \in 1..Len(L) : L[i] = e /\ \A j \in 1..(i - 1) : L[j] # e
Reversed(L) == [k \in 1..Len(L) |-> L[Len(L) + 1 - k]]

\* list.insert(i, m) with move semantics (m leaves its previous list first)
AttachList(S, ir, i, m) ==
  LET S1 == Detach(S, m)
      L  == S1.mods[ir]
      S2 == [S1 EXCEPT !.mods[ir] = PyInsertAt(L, PyClamp(i, Len(L)), m), !.par[m] = ir]
  IN CacheAdd(S2, ir, Sub(S2, m))
RECURSIVE FoldAppend(_, _, _)
FoldAppend(S, ir, ms) ==
  IF ms = <<>> THEN S
  ELSE FoldAppend(AttachList(S, ir, Len(S.mods[ir]), Head(ms)), ir, Tail(ms))

\* item/slice assignment: `removed` leave, `vals` arrive (from anywhere but the kept part)
RECURSIVE FoldOwn(_, _, _)
FoldOwn(S, ir, vs) ==
  IF vs = <<>> THEN S
  ELSE LET v == Head(vs)
           S1 == [S EXCEPT !.par[v] = ir]
       IN FoldOwn(CacheAdd(S1, ir, Sub(S1, v)), ir, Tail(vs))
PlaceList(S, ir, newL, removed, vals) ==
  LET S1 == FoldDetach(FoldDetach(S, removed), vals)
      S2 == [S1 EXCEPT !.mods[ir] = newL]
  IN FoldOwn(S2, ir, vals)


-----------------------------------------------------------------------------
(* Initial state: everything constructed with default arguments, attached as *)
(* Attach0 says (the harness builds it with the same public calls).          *)

DefName == Name0   \* the name symbols are constructed with
InitS ==
  LET E == [mods |-> [i \in IRs |-> <<>>],
            kids |-> [p \in SetParents |-> {}],
            par  |-> [c \in Children |-> NONE],
            cache |-> [i \in IRs |-> {i}],
            nidx |-> [m \in Modules |-> [n \in Names |-> {}]],
            ridx |-> [m \in Modules |-> [b \in Referents |-> {}]],
            nev  |-> [x \in LazyOwners |-> 0]]
      RECURSIVE Go(_, _)
      Go(S, as) == IF as = <<>> THEN S
                   ELSE LET c == Head(as)[1] p == Head(as)[2]
                        IN Go(IF c \in Modules THEN AttachList(S, p, Len(S.mods[p]), c)
                              ELSE AttachSet(S, p, c), Tail(as))
  IN Go(E, Attach0)

Init ==
  /\ addr = [v \in Intervals |-> IF \E a \in Geom0 : a[1] = v THEN (CHOOSE a \in Geom0 : a[1] = v)[2] ELSE NOADDR]
  /\ isz = [v \in Intervals |-> IF \E a \in Geom0 : a[1] = v THEN (CHOOSE a \in Geom0 : a[1] = v)[3] ELSE 0]
  /\ off = [b \in Blocks |-> 0] /\ bsz = [b \in Blocks |-> 0]
  /\ sname = [y \in Symbols |-> DefName]
  /\ pay = [y \in Symbols |-> IF \E a \in Pay0 : a[1] = y THEN (CHOOSE a \in Pay0 : a[1] = y)[2] ELSE NONE]
  /\ symx = [v \in Intervals |-> {<<a[2], a[3]>> : a \in {x \in Symx0 : x[1] = v}}]
  /\ cfg = [i \in IRs |-> {a[2] : a \in {x \in Cfg0 : x[1] = i}}]
  /\ bytes = [v \in Intervals |-> <<>>] /\ tags = [h \in TagHolders |-> {}]
  /\ entry = [m \in Modules |-> IF \E a \in Entry0 : a[1] = m THEN (CHOOSE a \in Entry0 : a[1] = m)[2] ELSE NONE]
  /\ scal = [h \in ScalHolders |-> [f \in FieldsOf(h) |-> ScalDef[f]]]
  /\ shadow = [i \in IRs |-> NoShadow]
  /\ built = [x \in LazyOwners |-> FALSE]
  /\ LET S == InitS IN /\ mods = S.mods /\ kids = S.kids /\ par = S.par /\ cache = S.cache
                       /\ nidx = S.nidx /\ ridx = S.ridx
                       /\ nev = [x \in LazyOwners |-> 0]
  /\ op = [name |-> "init"]

\* A containment step: commit S, everything else unchanged.
DoTree(o, S) == /\ op' = o /\ Commit(S)
                /\ UNCHANGED <<built, geomVars, symVars, restVars>>
\* A query: nothing changes.
DoQuery(o) == /\ op' = o /\ UNCHANGED absView

\* subsets with at most k elements (never SUBSET of a large set)
RECURSIVE UpTo(_, _)
UpTo(X, k) == IF k = 0 THEN {{}} ELSE LET P == UpTo(X, k - 1) IN P \cup {A \cup {x} : A \in P, x \in X}
Coll(p, r) == kids[p] \cap RelChildren(r)
ArgSets(r) == UpTo(RelChildren(r), ArgMax)
Seqs(X) == UNION {{s \in [1..n -> X] : \A i, j \in 1..n : i # j => s[i] # s[j]} : n \in 0..ArgMax}

-----------------------------------------------------------------------------
(* Containment from the child side:  c.<parent attribute> = p                *)

SetParent(c, p) ==
  /\ OnR("parent", RelOf(c))
  /\ LET S1 == IF p = NONE THEN Detach(S0, c)
               ELSE IF c \in Modules
                    THEN LET Sd == Detach(S0, c) IN AttachList(Sd, p, Len(Sd.mods[p]), c)
                    \* the setter discards first, then adds (events: _BlockSet would skip a
                    \* present member, but the setter has already removed it)
                    ELSE AttachSet(Detach(S0, c), p, c)
     IN DoTree([name |-> "setparent", r |-> RelOf(c), c |-> c, p |-> p, res |-> NONE], S1)

-----------------------------------------------------------------------------
(* Containment from the parent side: the MutableSet interface of the five    *)
(* owning sets.  Arguments range over members, non-members, nodes owned      *)
(* elsewhere.                                                                *)

SetMut(r, p) ==
  LET C == Coll(p, r)
      O(nm, extra, res) == [name |-> nm, r |-> r, p |-> p, res |-> res] @@ extra
  IN
  \/ \E c \in RelChildren(r) :
       \/ DoTree(O("set.add", [c |-> c], NONE), AttachSet(S0, p, c))
       \/ DoTree(O("set.discard", [c |-> c], NONE), IF c \in C THEN Detach(S0, c) ELSE S0)
       \/ IF c \in C THEN DoTree(O("set.remove", [c |-> c], NONE), Detach(S0, c))
                    ELSE DoTree(O("set.remove", [c |-> c], Exc("KeyError")), S0)
  \/ IF C = {} THEN DoTree(O("set.pop", [alts |-> {}], Exc("KeyError")), S0)
     ELSE \E c \in C : DoTree(O("set.pop", [alts |-> C], c), Detach(S0, c))
  \/ DoTree(O("set.clear", <<>>, NONE), FoldDetach(S0, SetToSeq(C)))
  \/ \E A \in ArgSets(r) :
       \/ DoTree(O("set.update", [a |-> A, b |-> {}, n |-> 1], NONE), FoldAttachSet(S0, p, SetToSeq(A)))
       \/ DoTree(O("set.ior", [a |-> A], NONE), FoldAttachSet(S0, p, SetToSeq(A)))
       \/ DoTree(O("set.iand", [a |-> A], NONE), FoldDetach(S0, SetToSeq(C \ A)))
       \/ DoTree(O("set.isub", [a |-> A], NONE), FoldDetach(S0, SetToSeq(C \cap A)))
       \/ DoTree(O("set.ixor", [a |-> A], NONE),
                 FoldAttachSet(FoldDetach(S0, SetToSeq(C \cap A)), p, SetToSeq(A \ C)))
  \/ \E A, B \in ArgSets(r) :
       /\ A # {} /\ B # {} /\ A \cap B = {}
       /\ DoTree(O("set.update", [a |-> A, b |-> B, n |-> 2], NONE),
                 FoldAttachSet(S0, p, SetToSeq(A \cup B)))

\* Arguments that are nodes of another kind (a symbol offered to module.sections, a block to
\* section.byte_intervals, ...): never members, so -- as for a built-in set -- discard and -= leave
\* everything alone, remove raises KeyError, the non-mutating operations see a non-member.  A module owns
\* three sets whose elements share one back pointer: "is a child of this module" is not "is a member".
SetForeign(r, p) ==
  LET C == Coll(p, r)
      O(nm, extra, res) == [name |-> nm, r |-> r, p |-> p, res |-> res] @@ extra
  IN \E c \in Children \ RelChildren(r) :
       \/ DoTree(O("set.discard", [c |-> c], NONE), S0)
       \/ DoTree(O("set.remove", [c |-> c], Exc("KeyError")), S0)
       \/ \E M \in UpTo(C, 1) :
            \/ DoTree(O("set.isub", [a |-> M \cup {c}], NONE), FoldDetach(S0, SetToSeq(M)))
            \/ DoTree(O("set.iand", [a |-> M \cup {c}], NONE), FoldDetach(S0, SetToSeq(C \ M)))
            \/ DoQuery(O("set.sub", [a |-> M \cup {c}], C \ M))
            \/ DoQuery(O("set.and", [a |-> M \cup {c}], M))
            \/ DoQuery(O("set.isdisjoint", [a |-> M \cup {c}], M = {}))
            \/ DoQuery(O("set.ge", [a |-> M \cup {c}], FALSE))

SetQuery(r, p) ==
  LET C == Coll(p, r)
      O(nm, A, res) == [name |-> nm, r |-> r, p |-> p, a |-> A, res |-> res]
  IN \E A \in ArgSets(r) :
       \/ DoQuery(O("set.or", A, C \cup A))   \/ DoQuery(O("set.ror", A, C \cup A))
       \/ DoQuery(O("set.and", A, C \cap A))  \/ DoQuery(O("set.rand", A, C \cap A))
       \/ DoQuery(O("set.sub", A, C \ A))     \/ DoQuery(O("set.rsub", A, A \ C))
       \/ DoQuery(O("set.xor", A, (C \ A) \cup (A \ C)))
       \/ DoQuery(O("set.rxor", A, (C \ A) \cup (A \ C)))
       \/ DoQuery(O("set.eq", A, C = A))      \/ DoQuery(O("set.ne", A, C # A))
       \/ DoQuery(O("set.le", A, C \subseteq A))
       \/ DoQuery(O("set.lt", A, C \subseteq A /\ C # A))
       \/ DoQuery(O("set.ge", A, A \subseteq C))
       \/ DoQuery(O("set.gt", A, A \subseteq C /\ C # A))
       \/ DoQuery(O("set.isdisjoint", A, C \cap A = {}))

-----------------------------------------------------------------------------
(* IR.modules: the MutableSequence interface.                                *)

\* values a list operation may receive: not members of the kept part of the list
ListMut(ir) ==
  LET L == mods[ir]  n == Len(L)
      O(nm, extra, res) == [name |-> nm, ir |-> ir, res |-> res] @@ extra
  IN
  \/ \E m \in Modules :
       \/ \E i \in ListIdx : DoTree(O("list.insert", [i |-> i, m |-> m], NONE), AttachList(S0, ir, i, m))
       \/ DoTree(O("list.append", [m |-> m], NONE), AttachList(S0, ir, Len(L), m))
       \/ IF m \in ToSet(L) THEN DoTree(O("list.remove", [m |-> m], NONE), Detach(S0, m))
                            ELSE DoTree(O("list.remove", [m |-> m], Exc("ValueError")), S0)
       \/ \E i \in ListIdx :
            IF ~InRange(i, n) THEN DoTree(O("list.setitem", [i |-> i, m |-> m], Exc("IndexError")), S0)
            ELSE LET k == Norm(i, n) + 1 IN
                 /\ (m \in ToSet(L) => L[k] = m)    \* rule 4: not a member of the kept part
                 /\ DoTree(O("list.setitem", [i |-> i, m |-> m], NONE),
                           PlaceList(S0, ir, [L EXCEPT ![k] = m], <<L[k]>>, <<m>>))
  \/ \E ms \in Seqs(Modules) :
       \/ DoTree(O("list.extend", [ms |-> ms], NONE), FoldAppend(S0, ir, ms))
       \/ DoTree(O("list.iadd", [ms |-> ms], NONE), FoldAppend(S0, ir, ms))
       \/ \E lo, hi \in ListIdx \cup {NoneIdx}, st \in {1, 2, -1} :
            LET ix == SliceIdx(n, lo, hi, st)
                region == [k \in 1..Len(ix) |-> L[ix[k] + 1]]
                kept == ToSet(L) \ ToSet(region)
                a == SliceStart(n, lo, st)
                b == Max2(a, SliceStop(n, hi, st))
                o == O("list.setslice", [lo |-> lo, hi |-> hi, st |-> st, ms |-> ms], NONE)
            IN /\ ToSet(ms) \cap kept = {}           \* rule 4
               /\ IF st = 1
                  THEN DoTree(o, PlaceList(S0, ir, SubSeq(L, 1, a) \o ms \o SubSeq(L, b + 1, n),
                                           SubSeq(L, a + 1, b), ms))
                  ELSE IF Len(ms) # Len(ix)
                       THEN DoTree([o EXCEPT !.res = Exc("ValueError")], S0)
                       ELSE DoTree(o, PlaceList(S0, ir,
                              [k \in 1..n |-> IF \E j \in 1..Len(ix) : ix[j] + 1 = k
                                              THEN ms[CHOOSE j \in 1..Len(ix) : ix[j] + 1 = k] ELSE L[k]],
                              region, ms))
  \/ \E i \in ListIdx :
       \/ IF InRange(i, n)
          THEN DoTree(O("list.delitem", [i |-> i], NONE), Detach(S0, L[Norm(i, n) + 1]))
          ELSE DoTree(O("list.delitem", [i |-> i], Exc("IndexError")), S0)
       \/ IF InRange(i, n)
          THEN DoTree(O("list.pop", [i |-> i], L[Norm(i, n) + 1]), Detach(S0, L[Norm(i, n) + 1]))
          ELSE DoTree(O("list.pop", [i |-> i], Exc("IndexError")), S0)
  \/ IF n > 0 THEN DoTree(O("list.pop", [i |-> NoneIdx], L[n]), Detach(S0, L[n]))
              ELSE DoTree(O("list.pop", [i |-> NoneIdx], Exc("IndexError")), S0)
  \/ \E lo, hi \in ListIdx \cup {NoneIdx}, st \in {1, 2, -1} :
       LET ix == SliceIdx(n, lo, hi, st)
       IN DoTree(O("list.delslice", [lo |-> lo, hi |-> hi, st |-> st], NONE),
                 FoldDetach(S0, [k \in 1..Len(ix) |-> L[ix[k] + 1]]))
  \/ DoTree(O("list.clear", <<>>, NONE), FoldDetach(S0, L))
  \/ DoTree(O("list.reverse", <<>>, NONE), [S0 EXCEPT !.mods[ir] = Reversed(L)])

ListQuery(ir) ==
  LET L == mods[ir]  n == Len(L)
      O(nm, extra, res) == [name |-> nm, ir |-> ir, res |-> res] @@ extra
  IN
  \/ \E i \in ListIdx :
       DoQuery(O("list.get", [i |-> i], IF InRange(i, n) THEN L[Norm(i, n) + 1] ELSE Exc("IndexError")))
  \/ \E lo, hi \in ListIdx \cup {NoneIdx}, st \in {1, 2, -1} :
       DoQuery(O("list.slice", [lo |-> lo, hi |-> hi, st |-> st], GetSlice(L, lo, hi, st)))
  \/ \E m \in Modules :
       \/ DoQuery(O("list.index", [m |-> m],
                    IF m \in ToSet(L) THEN IndexOf(L, m) - 1 ELSE Exc("ValueError")))
       \/ DoQuery(O("list.count", [m |-> m], Cardinality({i \in 1..n : L[i] = m})))
       \/ DoQuery(O("list.contains", [m |-> m], m \in ToSet(L)))
  \/ DoQuery(O("list.len", <<>>, n))


-----------------------------------------------------------------------------
(* Attributes that index keys are computed from (the notify-parent           *)
(* descriptor: index discard with the old key, set, index add with the new). *)

DoGeom(o, S) == /\ op' = o /\ Commit(S) /\ UNCHANGED <<built, symVars, symx, cfg, tags, entry, miscVars>>

Trunc(bs, z) == IF Len(bs) > z THEN SubSeq(bs, 1, z) ELSE bs

SetAddr(v, a) ==
  /\ (On("geom") \/ On("geom.iv")) /\ addr' = [addr EXCEPT ![v] = a]
  /\ DoGeom([name |-> "attr.addr", v |-> v, a |-> a, res |-> NONE],
            Bump(S0, par[v], (IF addr[v] # NOADDR THEN 1 ELSE 0) + (IF a # NOADDR THEN 1 ELSE 0)))
  /\ UNCHANGED <<isz, off, bsz, bytes>>
\* ByteInterval.md: shrinking size below the stored byte count truncates the bytes
SetISize(v, z) ==
  /\ (On("geom") \/ On("geom.iv")) /\ isz' = [isz EXCEPT ![v] = z] /\ bytes' = [bytes EXCEPT ![v] = Trunc(@, z)]
  /\ DoGeom([name |-> "attr.isize", v |-> v, z |-> z, res |-> NONE],
            Bump(S0, par[v], IF addr[v] # NOADDR THEN 2 ELSE 0))
  /\ UNCHANGED <<addr, off, bsz>>
SetOff(b, o) ==
  /\ (On("geom") \/ On("geom.bk")) /\ off' = [off EXCEPT ![b] = o]
  /\ DoGeom([name |-> "attr.off", b |-> b, o |-> o, res |-> NONE], Bump(S0, par[b], 2))
  /\ UNCHANGED <<addr, isz, bsz, bytes>>
SetBSize(b, z) ==
  /\ (On("geom") \/ On("geom.bk")) /\ bsz' = [bsz EXCEPT ![b] = z]
  /\ DoGeom([name |-> "attr.bsize", b |-> b, z |-> z, res |-> NONE], Bump(S0, par[b], 2))
  /\ UNCHANGED <<addr, isz, off, bytes>>

\* stored bytes: whole-content assignment (not longer than size) and initialized_size
SetBytes(v, bs) ==
  /\ On("bytes") /\ Len(bs) <= isz[v] /\ bytes' = [bytes EXCEPT ![v] = bs]
  /\ op' = [name |-> "attr.bytes", v |-> v, bs |-> bs, res |-> NONE]
  /\ UNCHANGED <<treeVars, built, geomVars, symVars, symx, cfg, tags, entry, miscVars>>
SetInitSize(v, k) ==
  /\ On("bytes") /\ k <= isz[v]
  /\ bytes' = [bytes EXCEPT ![v] = IF k <= Len(@) THEN SubSeq(@, 1, k)
                                    ELSE @ \o [j \in 1..(k - Len(@)) |-> 0]]
  /\ op' = [name |-> "attr.initsize", v |-> v, k |-> k, res |-> NONE]
  /\ UNCHANGED <<treeVars, built, geomVars, symVars, symx, cfg, tags, entry, miscVars>>

-----------------------------------------------------------------------------
(* Symbols: name and payload; the module's two indexes follow as the code's. *)

DoSym(o, S) == /\ op' = o /\ Commit(S) /\ UNCHANGED <<built, geomVars, restVars>>

SetName(y, nm) ==
  /\ On("sym") /\ sname' = [sname EXCEPT ![y] = nm] /\ UNCHANGED pay
  /\ LET m == par[y]
         S1 == IF m = NONE THEN S0
               ELSE LET Sd == IdxDiscard(S0, m, y) IN [Sd EXCEPT !.nidx[m][nm] = @ \cup {y}]
         S2 == IF m # NONE /\ pay[y] \in Referents THEN [S1 EXCEPT !.ridx[m][pay[y]] = @ \cup {y}] ELSE S1
     IN DoSym([name |-> "sym.name", y |-> y, nm |-> nm, res |-> NONE], S2)
SetPayload(y, pv) ==
  /\ On("sym") /\ pay' = [pay EXCEPT ![y] = pv] /\ UNCHANGED sname
  /\ LET m == par[y]
         S1 == IF m = NONE THEN S0
               ELSE LET Sd == IdxDiscard(S0, m, y) IN [Sd EXCEPT !.nidx[m][sname[y]] = @ \cup {y}]
         S2 == IF m # NONE /\ pv \in Referents THEN [S1 EXCEPT !.ridx[m][pv] = @ \cup {y}] ELSE S1
     IN DoSym([name |-> "sym.payload", y |-> y, pv |-> pv, res |-> NONE], S2)

\* construction rejects more stored bytes than the interval's size (C19); a pure query of the constructor
CtorInterval(z, bs) ==
  /\ On("ctor")
  /\ DoQuery([name |-> "ctor.interval", z |-> z, bs |-> bs,
              res |-> IF Len(bs) > z THEN Exc("ValueError") ELSE [size |-> z, bytes |-> bs, isize |-> Len(bs)]])

SetEntry(m, c) ==
  /\ On("entry") /\ entry' = [entry EXCEPT ![m] = c]
  /\ op' = [name |-> "mod.entry", m |-> m, c |-> c, res |-> NONE]
  /\ UNCHANGED <<treeVars, built, geomVars, symVars, symx, cfg, bytes, tags, miscVars>>

\* flags of sections, aux_data keys of IRs/modules, attributes of expressions
TagOp(h, t) ==
  /\ On("tags") /\ (h \in Sections => t < NFlags)
  /\ \/ /\ tags' = [tags EXCEPT ![h] = @ \cup {t}] /\ op' = [name |-> "tag.add", h |-> h, t |-> t, res |-> NONE]
     \/ /\ tags' = [tags EXCEPT ![h] = @ \ {t}] /\ op' = [name |-> "tag.del", h |-> h, t |-> t, res |-> NONE]
  /\ UNCHANGED <<treeVars, built, geomVars, symVars, symx, cfg, bytes, entry, miscVars>>

\* plain attributes: every field of every node kind that save writes and deep_eq compares
SetScalar(h, f, t) ==
  /\ On("scal") /\ f \in FieldsOf(h) /\ t \in ScalDom[f]
  /\ f = "kindflip" => \A y \in Symbols : pay[y] # h      \* (nothing keeps a reference to the replaced object)
  /\ scal' = [scal EXCEPT ![h][f] = t]
  /\ op' = [name |-> "scal", h |-> h, f |-> f, t |-> t, res |-> NONE]
  /\ UNCHANGED <<treeVars, built, geomVars, symVars, symx, cfg, bytes, tags, entry, shadow>>

-----------------------------------------------------------------------------
(* ByteInterval.symbolic_expressions: the MutableMapping interface.          *)

Keys(v) == {kv[1] : kv \in symx[v]}
ValAt(v, k) == (CHOOSE kv \in symx[v] : kv[1] = k)[2]
Put(M, k, e) == {kv \in M : kv[1] # k} \cup {<<k, e>>}
DoSymx(o, v, M) == /\ op' = o /\ symx' = [symx EXCEPT ![v] = M]
                   /\ UNCHANGED <<treeVars, built, geomVars, symVars, cfg, bytes, tags, entry, miscVars>>
Maps == {M \in UpTo(Offs \X Exprs, ArgMax) : \A a, b \in M : a[1] = b[1] => a = b}
RECURSIVE PutAll(_, _)
PutAll(M, N) == IF N = {} THEN M ELSE LET kv == CHOOSE x \in N : TRUE IN PutAll(Put(M, kv[1], kv[2]), N \ {kv})

SymxOp(v) ==
  /\ On("symx")
  /\ LET M == symx[v]
         O(nm, extra, res) == [name |-> nm, v |-> v, res |-> res] @@ extra
     IN
     \/ \E k \in Offs, e \in Exprs :
          \/ DoSymx(O("symx.set", [k |-> k, e |-> e], NONE), v, Put(M, k, e))
          \/ DoSymx(O("symx.setdefault", [k |-> k, e |-> e], IF k \in Keys(v) THEN ValAt(v, k) ELSE e), v,
                    IF k \in Keys(v) THEN M ELSE Put(M, k, e))
     \/ \E k \in Offs :
          \/ IF k \in Keys(v) THEN DoSymx(O("symx.del", [k |-> k], NONE), v, {kv \in M : kv[1] # k})
                              ELSE DoSymx(O("symx.del", [k |-> k], Exc("KeyError")), v, M)
          \/ IF k \in Keys(v) THEN DoSymx(O("symx.pop", [k |-> k], ValAt(v, k)), v, {kv \in M : kv[1] # k})
                              ELSE DoSymx(O("symx.pop", [k |-> k], Exc("KeyError")), v, M)
          \/ DoSymx(O("symx.get", [k |-> k], IF k \in Keys(v) THEN ValAt(v, k) ELSE Exc("KeyError")), v, M)
          \/ DoSymx(O("symx.contains", [k |-> k], k \in Keys(v)), v, M)
     \/ IF M = {} THEN DoSymx(O("symx.popitem", [alts |-> {}], Exc("KeyError")), v, M)
        ELSE \E kv \in M : DoSymx(O("symx.popitem", [alts |-> M], kv), v, M \ {kv})
     \/ DoSymx(O("symx.clear", <<>>, NONE), v, {})
     \/ DoSymx(O("symx.len", <<>>, Cardinality(M)), v, M)
     \/ \E N \in Maps :
          \/ DoSymx(O("symx.update", [n |-> N], NONE), v, PutAll(M, N))
          \/ DoSymx(O("symx.assign", [n |-> N], NONE), v, N)

-----------------------------------------------------------------------------
(* IR.cfg: a MutableSet of <<source, target, label>>.                        *)

Edges == CfgNodes \X CfgNodes \X Labels
EdgeArgs == UpTo(Edges, ArgMax)
DoCfg(o, i, E) == /\ op' = o /\ cfg' = [cfg EXCEPT ![i] = E]
                  /\ UNCHANGED <<treeVars, built, geomVars, symVars, symx, bytes, tags, entry, miscVars>>
\* a cheap subset for random simulation over a universe with many labels
SmallLabels == {"nolabel", "L000", "L111"} \cap Labels
CfgSmall(i) ==
  /\ On("cfg.small")
  /\ \/ \E a, b \in CfgNodes, l \in SmallLabels :
          \/ DoCfg([name |-> "cfg.add", ir |-> i, e |-> <<a, b, l>>, res |-> NONE], i, cfg[i] \cup {<<a, b, l>>})
          \/ DoCfg([name |-> "cfg.discard", ir |-> i, e |-> <<a, b, l>>, res |-> NONE], i, cfg[i] \ {<<a, b, l>>})
     \/ DoCfg([name |-> "cfg.clear", ir |-> i, res |-> NONE], i, {})
CfgOp(i) ==
  /\ On("cfg")
  /\ LET E == cfg[i]
         O(nm, extra, res) == [name |-> nm, ir |-> i, res |-> res] @@ extra
     IN
     \/ \E e \in Edges :
          \/ DoCfg(O("cfg.add", [e |-> e], NONE), i, E \cup {e})
          \/ DoCfg(O("cfg.discard", [e |-> e], NONE), i, E \ {e})
          \/ IF e \in E THEN DoCfg(O("cfg.remove", [e |-> e], NONE), i, E \ {e})
                        ELSE DoCfg(O("cfg.remove", [e |-> e], Exc("KeyError")), i, E)
          \/ DoCfg(O("cfg.contains", [e |-> e], e \in E), i, E)
     \/ IF E = {} THEN DoCfg(O("cfg.pop", [alts |-> {}], Exc("KeyError")), i, E)
        ELSE \E e \in E : DoCfg(O("cfg.pop", [alts |-> E], e), i, E \ {e})
     \/ DoCfg(O("cfg.clear", <<>>, NONE), i, {})
     \/ \E A \in EdgeArgs :
          \/ DoCfg(O("cfg.update", [a |-> A], NONE), i, E \cup A)
          \/ DoCfg(O("cfg.ior", [a |-> A], NONE), i, E \cup A)
          \/ DoCfg(O("cfg.iand", [a |-> A], NONE), i, E \cap A)
          \/ DoCfg(O("cfg.isub", [a |-> A], NONE), i, E \ A)
          \/ DoCfg(O("cfg.ixor", [a |-> A], NONE), i, (E \ A) \cup (A \ E))


-----------------------------------------------------------------------------
(* Fresh-scan definitions of every lookup (the oracles; no index involved).  *)
(* A query is <<lo, hi, step>> with step >= 1; a point a is <<a, a+1, 1>>.   *)

InQ(a, q) == q[1] <= a /\ a < q[2] /\ (a - q[1]) % q[3] = 0
QElems(q) == IF q[1] >= q[2] THEN {} ELSE {q[1] + k * q[3] : k \in 0..((q[2] - q[1] - 1) \div q[3])}
\* 'on': non-zero size and the byte range [a, a+z) meets the query.  For step > 1
\* "meets" may be read on the element set (Must) or on the span (May).
OnMust(a, z, q) == z > 0 /\ \E e \in QElems(q) : a <= e /\ e < a + z
OnMay(a, z, q)  == z > 0 /\ q[1] < q[2] /\ a < q[2] /\ a + z > q[1]

IntervalsIn(x) == {v \in Intervals : v \in Sub(S0, x)}
BlocksIn(x)    == {b \in Blocks : b \in Sub(S0, x)}
SectionsIn(x)  == {s \in Sections : s \in Sub(S0, x)}
HasAddr(b) == par[b] # NONE /\ addr[par[b]] # NOADDR
BAddr(b) == IF HasAddr(b) THEN addr[par[b]] + off[b] ELSE NOADDR
\* is address e inside the declared extent of b's interval?
InExtent(b, e) == LET v == par[b] IN addr[v] <= e /\ e < addr[v] + isz[v]

KindSet(k) == CASE k = "byte" -> Blocks [] k = "code" -> CodeBlocks [] k = "data" -> DataBlocks
\* byte/code/data_blocks_on at scope x: <<Must, May>>
BlocksOn(x, k, q) ==
  LET C == {b \in BlocksIn(x) \cap KindSet(k) : HasAddr(b)}
      must == IF x \in Intervals THEN {b \in C : OnMust(BAddr(b), bsz[b], q)}
              ELSE {b \in C : bsz[b] > 0 /\ \E e \in QElems(q) :
                                BAddr(b) <= e /\ e < BAddr(b) + bsz[b] /\ InExtent(b, e)}
  IN <<must, {b \in C : OnMay(BAddr(b), bsz[b], q)}>>
BlocksAt(x, k, q) ==
  LET C == {b \in BlocksIn(x) \cap KindSet(k) : HasAddr(b) /\ InQ(BAddr(b), q)}
  IN <<IF x \in Intervals THEN C ELSE {b \in C : InExtent(b, BAddr(b))}, C>>
BlocksOnOff(v, k, q) == LET C == kids[v] \cap KindSet(k)
                        IN <<{b \in C : OnMust(off[b], bsz[b], q)}, {b \in C : OnMay(off[b], bsz[b], q)}>>
BlocksAtOff(v, k, q) == LET C == {b \in kids[v] \cap KindSet(k) : InQ(off[b], q)} IN <<C, C>>
IvsOn(x, q) == LET C == {v \in IntervalsIn(x) : addr[v] # NOADDR}
               IN <<{v \in C : OnMust(addr[v], isz[v], q)}, {v \in C : OnMay(addr[v], isz[v], q)}>>
IvsAt(x, q) == LET C == {v \in IntervalsIn(x) : addr[v] # NOADDR /\ InQ(addr[v], q)} IN <<C, C>>

SecHasExt(s) == kids[s] # {} /\ \A v \in kids[s] : addr[v] # NOADDR
SecAddr(s) == IF SecHasExt(s) THEN Min({addr[v] : v \in kids[s]}) ELSE NOADDR
SecSize(s) == IF SecHasExt(s) THEN Max({addr[v] + isz[v] : v \in kids[s]}) - SecAddr(s) ELSE NOADDR
SecsOn(x, q) == LET C == {s \in SectionsIn(x) : SecHasExt(s)}
                IN <<{s \in C : OnMust(SecAddr(s), SecSize(s), q)}, {s \in C : OnMay(SecAddr(s), SecSize(s), q)}>>
SecsAt(x, q) == LET C == {s \in SectionsIn(x) : SecHasExt(s) /\ InQ(SecAddr(s), q)} IN <<C, C>>

\* symbolic_expressions_at: triples <<interval, offset, expr>>
SymxAt(x, q) ==
  LET C == {<<v, kv[1], kv[2]>> : v \in {w \in IntervalsIn(x) : addr[w] # NOADDR}, kv \in Offs \X Exprs}
      D == {t \in C : <<t[2], t[3]>> \in symx[t[1]] /\ InQ(addr[t[1]] + t[2], q)}
  IN <<IF x \in Intervals THEN D ELSE {t \in D : t[2] < isz[t[1]]}, D>>
SymxAtOff(v, q) == LET D == {<<v, kv[1], kv[2]>> : kv \in {w \in symx[v] : InQ(w[1], q)}} IN <<D, D>>

SymbolsNamed(m, nm) == {y \in kids[m] \cap Symbols : sname[y] = nm}
ModOf(n) == IF n \in Modules THEN n ELSE IF n \in IRs \/ n = NONE THEN NONE
            ELSE LET a == CHOOSE a \in Modules \cup {NONE} :
                             \/ a \in Modules /\ n \in Sub(S0, a)
                             \/ a = NONE /\ \A m \in Modules : n \notin Sub(S0, m) IN a
SecOf(n) == IF n \in Intervals THEN par[n] ELSE IF n \in Blocks /\ par[n] # NONE THEN par[par[n]] ELSE NONE
References(b) == IF ModOf(b) = NONE THEN {} ELSE {y \in kids[ModOf(b)] \cap Symbols : pay[y] = b}
BBytes(b) == IF par[b] = NONE THEN <<>>
             ELSE LET bs == bytes[par[b]] IN SubSeq(bs, off[b] + 1, Min2(off[b] + bsz[b], Len(bs)))
ContainsOff(b, k) == off[b] <= k /\ k < off[b] + bsz[b]
ContainsAddr(b, a) == HasAddr(b) /\ ContainsOff(b, a - addr[par[b]])
OutEdges(i, n) == {e \in cfg[i] : e[1] = n}
InEdges(i, n)  == {e \in cfg[i] : e[2] = n}

-----------------------------------------------------------------------------
(* Lookups as actions: they leave the abstract state alone and change only   *)
(* the lazy indexes' bookkeeping, exactly as LazyIntervalTree.get() does     *)
(* (build / rebuild / replay all end with "built, no pending events").       *)

LFams == {"extent", "ion", "son", "bon", "off"}
Touched(x, fam, q) ==
  CASE fam = "extent" -> {x}
    [] fam = "off" -> {x}
    [] fam \in {"ion", "son"} -> SectionsIn(x)
    [] fam = "bon" -> IF x \in Intervals THEN (IF addr[x] # NOADDR THEN {x} ELSE {})
                      ELSE SectionsIn(x) \cup IvsOn(x, q)[2]
LookupOK(x, fam) ==
  CASE fam = "extent" -> x \in Sections
    [] fam = "off" -> x \in Intervals
    [] fam = "ion" -> x \in Sections \cup Modules \cup IRs
    [] fam = "son" -> x \in Modules \cup IRs
    [] fam = "bon" -> x \in Intervals \cup Sections \cup Modules \cup IRs
\* which of get()'s three branches each touched index takes (coverage evidence)
Branch(o) == IF ~built[o] THEN "build"
             ELSE IF Cardinality(kids[o]) <= nev[o] THEN "rebuild" ELSE "replay"
Lookup(x, fam, q) ==
  /\ On("lookup") /\ LookupOK(x, fam)
  /\ LET T == Touched(x, fam, q) IN
     /\ built' = [o \in LazyOwners |-> IF o \in T THEN TRUE ELSE built[o]]
     /\ nev' = [o \in LazyOwners |-> IF o \in T THEN 0 ELSE nev[o]]
     /\ op' = [name |-> "lookup", x |-> x, fam |-> fam, q |-> q, res |-> NONE,
               branches |-> [o \in T |-> Branch(o)]]
  /\ UNCHANGED <<mods, kids, par, cache, nidx, ridx, geomVars, symVars, restVars>>

-----------------------------------------------------------------------------
(* Constructors with parent / children arguments, and save + load.           *)

CONSTANT ExprSym   \* [Exprs -> Symbols \cup {NONE}]: the symbol an expression refers to
Pristine(n) ==
  /\ (IF n \in IRs THEN cfg[n] = {} ELSE par[n] = NONE)
  /\ KidsOf(S0, n) = {}
  /\ (IF n \in Intervals THEN addr[n] = NOADDR /\ isz[n] = 0 /\ symx[n] = {} /\ bytes[n] = <<>> ELSE TRUE)
  /\ (IF n \in Blocks THEN off[n] = 0 /\ bsz[n] = 0 ELSE TRUE)
  /\ (IF n \in Symbols THEN sname[n] = DefName /\ pay[n] = NONE
                              /\ \A e \in Exprs : ExprSym[e] # n /\ Sym2Of(e) # n ELSE TRUE)
  /\ (IF n \in TagHolders THEN tags[n] = {} ELSE TRUE)
  /\ (IF n \in ScalHolders THEN \A f \in FieldsOf(n) : scal[n][f] = ScalDef[f] ELSE TRUE)
  /\ (IF n \in Modules THEN entry[n] = NONE ELSE TRUE)
  /\ \A y \in Symbols : pay[y] # n
  /\ \A m \in Modules : entry[m] # n
  /\ \A i \in IRs : \A e \in cfg[i] : e[1] # n /\ e[2] # n
ChildKinds(n) == IF n \in Modules THEN Proxies \cup Sections \cup Symbols
                 ELSE IF n \in Sections THEN Intervals ELSE IF n \in Intervals THEN Blocks ELSE {}
New(n, p, K) ==
  /\ On("new") /\ Pristine(n)
  /\ IF n \in IRs
     THEN /\ p = NONE
          /\ \E ms \in Seqs(Modules) :
               /\ DoTree([name |-> "new", n |-> n, p |-> NONE, ms |-> ms, res |-> NONE],
                         FoldAppend(S0, n, ms))
     ELSE /\ K \subseteq ChildKinds(n) /\ Cardinality(K) <= ArgMax
          /\ LET order == SetToSeq(K \cap Proxies) \o SetToSeq(K \cap Sections)
                          \o SetToSeq(K \ (Proxies \cup Sections))
                 S1 == FoldAttachSet(S0, n, order)
                 S2 == IF p = NONE THEN S1
                       ELSE IF n \in Modules THEN AttachList(S1, p, Len(S1.mods[p]), n)
                       ELSE AttachSet(S1, p, n)
             IN /\ op' = [name |-> "new", n |-> n, p |-> p, k |-> K, res |-> NONE]
                /\ Commit(S2)
                /\ built' = [o \in LazyOwners |-> IF o = n THEN FALSE ELSE built[o]]
                /\ UNCHANGED <<geomVars, symVars, restVars>>

\* ---- the gtirb.proto.IR message save must write for IR i (PROTOBUF.md, proto/*.proto), as nested
\* records; repeated fields whose order carries no meaning are sets.  UUIDs are node ids.
IsCode(b) == b \in CodeBlocks \/ (b \in DataBlocks /\ scal[b]["kindflip"] = "T")
BlockMsg(b) == [uuid |-> b, offset |-> off[b], size |-> bsz[b], kind |-> IF IsCode(b) THEN "code" ELSE "data",
                decode_mode |-> IF b \in CodeBlocks THEN scal[b]["decode_mode"]
                                ELSE IF IsCode(b) THEN ScalDef["decode_mode"] ELSE "-"]
ExprMsg(k, e) == [key |-> k, kind |-> KindOf(e), sym1 |-> ExprSym[e], sym2 |-> Sym2Of(e),
                  offset |-> scal[e]["xoffset"], scale |-> IF KindOf(e) = "aa" THEN scal[e]["xscale"] ELSE "-",
                  attrs |-> tags[e]]
IntervalMsg(v) == [uuid |-> v, has_address |-> addr[v] # NOADDR, address |-> IF addr[v] = NOADDR THEN 0 ELSE addr[v],
                   size |-> isz[v], contents |-> bytes[v], blocks |-> {BlockMsg(b) : b \in kids[v]},
                   symx |-> {ExprMsg(kv[1], kv[2]) : kv \in symx[v]}]
SectionMsg(s) == [uuid |-> s, name |-> scal[s]["name"], flags |-> tags[s],
                  intervals |-> {IntervalMsg(v) : v \in kids[s]}]
SymbolMsg(y) == [uuid |-> y, name |-> sname[y], at_end |-> scal[y]["at_end"],
                 payload |-> IF pay[y] = NONE THEN "none" ELSE IF pay[y] \in Referents THEN "referent" ELSE "value",
                 value |-> pay[y]]
ModuleMsg(m) == [uuid |-> m, scal |-> scal[m], entry |-> entry[m], aux |-> tags[m],
                 proxies |-> kids[m] \cap Proxies,
                 sections |-> {SectionMsg(s) : s \in kids[m] \cap Sections},
                 symbols |-> {SymbolMsg(y) : y \in kids[m] \cap Symbols}]
EdgeMsg(e) == [src |-> e[1], tgt |-> e[2], label |-> e[3]]
\* what deep_eq compares: everything but the CFG vertex list (and module order, AuxData values)
Content(i) == [uuid |-> i, version |-> scal[i]["version"], aux |-> tags[i],
               modules |-> {ModuleMsg(m) : m \in ToSet(mods[i])}, edges |-> {EdgeMsg(e) : e \in cfg[i]}]
MsgOf(i) == [content |-> Content(i), module_order |-> mods[i],
             vertices |-> {n \in Sub(S0, i) : n \in CfgNodes \/ (n \in DataBlocks /\ IsCode(n))}]

\* what deep_eq of a node below the IR compares: its own message, and -- where it refers to another
\* node (payload, entry point, the symbols of an expression) -- that node's deep content, not its UUID only
DeepBlk(b) == IF b \in Blocks THEN BlockMsg(b)
              ELSE [uuid |-> b, offset |-> 0, size |-> 0, kind |-> "proxy", decode_mode |-> "-"]
DeepSym(y) == [msg |-> SymbolMsg(y), ref |-> IF pay[y] \in Referents THEN {DeepBlk(pay[y])} ELSE {}]
DeepSyms(k, e) == {<<k, 1, DeepSym(ExprSym[e])>>} \cup (IF KindOf(e) = "aa" THEN {<<k, 2, DeepSym(Sym2Of(e))>>} ELSE {})
DeepInterval(v) == [msg |-> IntervalMsg(v), syms |-> UNION {DeepSyms(kv[1], kv[2]) : kv \in symx[v]}]
DeepSection(s) == [msg |-> SectionMsg(s), ivs |-> {DeepInterval(v) : v \in kids[s]}]
DeepModule(m) == [msg |-> ModuleMsg(m), secs |-> {DeepSection(x) : x \in kids[m] \cap Sections},
                  syms |-> {DeepSym(y) : y \in kids[m] \cap Symbols},
                  entry |-> IF entry[m] = NONE THEN {} ELSE {DeepBlk(entry[m])}]
ShadowOf(i) ==
  LET R == Sub(S0, i) IN
  [content |-> Content(i),
   dm |-> [m \in R \cap Modules |-> DeepModule(m)], ds |-> [x \in R \cap Sections |-> DeepSection(x)],
   dv |-> [v \in R \cap Intervals |-> DeepInterval(v)], dy |-> [y \in R \cap Symbols |-> DeepSym(y)],
   db |-> [b \in R \cap Referents |-> DeepBlk(b)]]
\* nodes of IR i that have a twin in its shadow, and whether node.deep_eq(twin) must hold
Twinned(i) == IF shadow[i] = NoShadow THEN {}
              ELSE (Sub(S0, i) \ {i}) \cap (DOMAIN shadow[i].dm \cup DOMAIN shadow[i].ds \cup DOMAIN shadow[i].dv
                                              \cup DOMAIN shadow[i].dy \cup DOMAIN shadow[i].db)
NodeDeq(i, n) ==
  IF n \in Modules THEN DeepModule(n) = shadow[i].dm[n]
  ELSE IF n \in Sections THEN DeepSection(n) = shadow[i].ds[n]
  ELSE IF n \in Intervals THEN DeepInterval(n) = shadow[i].dv[n]
  ELSE IF n \in Symbols THEN DeepSym(n) = shadow[i].dy[n]
  ELSE DeepBlk(n) = shadow[i].db[n]

SelfContained(i) ==
  LET R == Sub(S0, i) IN
  /\ \A y \in Symbols \cap R : pay[y] \in Referents => ModOf(pay[y]) = par[y]
  \* (an entry point only has to be attached to this IR: it may be a block of another module, C01)
  /\ \A m \in Modules \cap R : entry[m] # NONE => entry[m] \in R
  /\ \A v \in Intervals \cap R : \A kv \in symx[v] :
        /\ ExprSym[kv[2]] # NONE /\ ModOf(ExprSym[kv[2]]) = ModOf(v)
        /\ KindOf(kv[2]) = "aa" => (Sym2Of(kv[2]) # NONE /\ ModOf(Sym2Of(kv[2])) = ModOf(v))
  /\ \A e \in cfg[i] : e[1] \in R /\ e[2] \in R
\* The harness swaps its objects for the loaded ones, so nothing outside the IR may keep a
\* reference into it, and an expression object stored twice would come back as two objects.
Occurrences(e) == {<<v, kv>> \in Intervals \X (Offs \X Exprs) : kv \in symx[v] /\ kv[2] = e}
Closed(i) ==
  LET R == Sub(S0, i) IN
  /\ \A y \in Symbols \ R : pay[y] \notin R
  /\ \A m \in Modules \ R : entry[m] \notin R
  /\ \A j \in IRs \ {i} : \A e \in cfg[j] : e[1] \notin R /\ e[2] \notin R
  /\ \A e \in Exprs : (\E o \in Occurrences(e) : o[1] \in R) => Cardinality(Occurrences(e)) = 1
\* An IR whose version attribute is not this API's protobuf version is saved with that number in the
\* message (C02) and the file is then refused with ValueError (C17): nothing changes.
ReloadRefused(i) ==
  /\ On("reload") /\ SelfContained(i) /\ Closed(i) /\ scal[i]["version"] # "CUR"
  /\ op' = [name |-> "reload", ir |-> i, res |-> Exc("ValueError"), msg |-> MsgOf(i)]
  /\ UNCHANGED absView
Reload(i) ==
  /\ On("reload") /\ SelfContained(i) /\ Closed(i) /\ scal[i]["version"] = "CUR"
  /\ LET R == Sub(S0, i) IN
     /\ built' = [o \in LazyOwners |-> IF o \in R THEN FALSE ELSE built[o]]
     /\ nev' = [o \in LazyOwners |-> IF o \in R THEN 0 ELSE nev[o]]
  /\ op' = [name |-> "reload", ir |-> i, res |-> NONE, msg |-> MsgOf(i)]
  /\ shadow' = IF On("shadow") THEN [shadow EXCEPT ![i] = ShadowOf(i)] ELSE shadow
  /\ UNCHANGED <<mods, kids, par, cache, nidx, ridx, geomVars, symVars, symx, cfg, bytes, tags, entry, scal>>

\* ---- the reader alone (C02, second half; C09): a message written by somebody else only has to be schema-valid
\* and referentially closed -- references may cross modules in either direction, whatever the order in which
\* the modules are listed.  The abstract state does not change; the harness writes MsgOf(i) with an independent
\* writer, loads it and compares.  fwd says whether some reference names a node of a module listed later.
RefClosed(i) ==
  LET R == Sub(S0, i) IN
  /\ \A y \in Symbols \cap R : pay[y] \in Referents => pay[y] \in R
  /\ \A m \in Modules \cap R : entry[m] # NONE => entry[m] \in R
  /\ \A v \in Intervals \cap R : \A kv \in symx[v] :
        /\ ExprSym[kv[2]] \in R
        /\ KindOf(kv[2]) = "aa" => Sym2Of(kv[2]) \in R
  /\ \A e \in cfg[i] : e[1] \in R /\ e[2] \in R
PosOf(i, m) == CHOOSE k \in 1..Len(mods[i]) : mods[i][k] = m
Later(i, a, b) == PosOf(i, ModOf(a)) > PosOf(i, ModOf(b))     \* a's module is listed after b's
FwdReferent(i) == \E y \in Symbols \cap Sub(S0, i) : pay[y] \in Referents /\ Later(i, pay[y], y)
FwdExpr(i) == \E v \in Intervals \cap Sub(S0, i) : \E kv \in symx[v] :
                 \/ Later(i, ExprSym[kv[2]], v)
                 \/ (KindOf(kv[2]) = "aa" /\ Later(i, Sym2Of(kv[2]), v))
\* The writer alone: save does not change anything and may be called any number of times; whatever was done to the
\* IR since the last save, the bytes are the message of the *current* state (no stale encodings: the harness
\* saves every IR once when the universe is built, so each WriteMsg is a second save from the same objects).
WriteMsg(i) ==
  /\ On("writemsg")
  /\ \A v \in Intervals \cap Sub(S0, i) : \A kv \in symx[v] :
        ExprSym[kv[2]] # NONE /\ (KindOf(kv[2]) = "aa" => Sym2Of(kv[2]) # NONE)
  /\ op' = [name |-> "writemsg", ir |-> i, msg |-> MsgOf(i), res |-> NONE]
  /\ UNCHANGED absView
ReadMsg(i) ==
  /\ On("readmsg") /\ RefClosed(i) /\ Closed(i) /\ scal[i]["version"] = "CUR"
  /\ op' = [name |-> "readmsg", ir |-> i, msg |-> MsgOf(i), res |-> NONE,
            fwd |-> IF FwdReferent(i) /\ FwdExpr(i) THEN "referent+expr" ELSE IF FwdReferent(i) THEN "referent"
                    ELSE IF FwdExpr(i) THEN "expr" ELSE "-"]
  /\ UNCHANGED absView

-----------------------------------------------------------------------------
(* Files the writer never produces (C09 second half, C17): one structural    *)
(* fault injected into the message of a self-contained IR.  The abstract     *)
(* state does not change; op carries the message, the fault and the outcome  *)
(* the properties prescribe.                                                 *)

Site(s, a, b, c) == [site |-> s, a |-> a, b |-> b, c |-> c]
RefSites(i) ==
  LET R == Sub(S0, i) IN
  {Site("referent", y, "-", "-") : y \in {z \in Symbols \cap R : pay[z] \in Referents}}
  \cup {Site("entry", m, "-", "-") : m \in {x \in Modules \cap R : entry[x] # NONE}}
  \cup UNION {{Site("edge.src", e[1], e[2], e[3]), Site("edge.tgt", e[1], e[2], e[3])} : e \in cfg[i]}
  \cup UNION {UNION {{Site("expr.sym1", v, ToString(kv[1]), kv[2])}
                     \cup (IF KindOf(kv[2]) = "aa" THEN {Site("expr.sym2", v, ToString(kv[1]), kv[2])} ELSE {})
                     : kv \in symx[v]} : v \in Intervals \cap R}
\* attached nodes of a kind the reference must not name
WrongKind(i, s) ==
  LET R == Sub(S0, i) IN
  CASE s.site = "referent" -> R \cap (Sections \cup Symbols \cup Intervals \cup Modules)
    [] s.site = "entry" -> R \cap (DataBlocks \cup Proxies \cup Symbols \cup Sections)
    [] s.site \in {"edge.src", "edge.tgt"} -> R \cap (DataBlocks \cup Symbols \cup Sections \cup Modules)
    [] s.site \in {"expr.sym1", "expr.sym2"} -> R \cap (Blocks \cup Proxies \cup Sections)
\* two attached nodes written with one UUID (every reference to either then names that UUID)
DupPairs(i) == {A \in UpTo(Sub(S0, i) \ {i}, 2) : Cardinality(A) = 2}
\* every enum-typed field of the message, to be written with a number the schema does not define
\* (expression attributes are exempt: unknown numbers are kept, PROTOBUF.md)
EnumSites(i) ==
  LET R == Sub(S0, i) IN
  {Site("enum", m, f, "-") : m \in R \cap Modules, f \in {"isa", "file_format", "byte_order"}}
  \cup {Site("enum", s, "section_flags", "-") : s \in R \cap Sections}
  \cup {Site("enum", b, "decode_mode", "-") : b \in R \cap CodeBlocks}
  \cup {Site("enum.edge", e[1], e[2], e[3]) : e \in {x \in cfg[i] : x[3] # "nolabel"}}
OtherFaults == {"dup-uuid-same-kind", "dup-uuid-cross-kind", "unknown-enum", "uuid-too-short", "uuid-too-long",
                "contents-exceed-size", "contents-exceed-zero-size",
                "bad-magic", "bad-version-byte", "bad-version-field", "zero-version-field", "truncated-header"}
FaultExpect(f) == IF f \in {"bad-magic", "bad-version-byte", "bad-version-field", "zero-version-field",
                              "truncated-header"} THEN "ValueError"
             ELSE "reject-or-coherent"
LoadFault(i) ==
  \* (references may cross modules: a reader has to check every reference of every referentially closed message)
  /\ On("fault") /\ RefClosed(i) /\ Closed(i) /\ scal[i]["version"] = "CUR"
  /\ \/ \E s \in RefSites(i) :
          \/ op' = [name |-> "loadfault", ir |-> i, msg |-> MsgOf(i), fault |-> "dangling", site |-> s, to |-> NONE,
                     expect |-> "DeserializationError", res |-> NONE]
          \/ \E w \in WrongKind(i, s) :
               op' = [name |-> "loadfault", ir |-> i, msg |-> MsgOf(i), fault |-> "ill-typed", site |-> s, to |-> w,
                      expect |-> "DeserializationError", res |-> NONE]
     \/ \E f \in OtherFaults :
          op' = [name |-> "loadfault", ir |-> i, msg |-> MsgOf(i), fault |-> f, site |-> Site("-", "-", "-", "-"),
                 to |-> NONE, expect |-> FaultExpect(f), res |-> NONE]
     \/ \E s \in EnumSites(i) :
          op' = [name |-> "loadfault", ir |-> i, msg |-> MsgOf(i), fault |-> "unknown-enum-at", site |-> s,
                 to |-> NONE, expect |-> "reject-or-coherent", res |-> NONE]
     \/ \E A \in DupPairs(i) :
          LET a == CHOOSE x \in A : TRUE
              b == CHOOSE x \in A : x # a
          IN op' = [name |-> "loadfault", ir |-> i, msg |-> MsgOf(i), fault |-> "dup-uuid", site |-> Site("dup", a, b, "-"),
                    to |-> NONE, expect |-> "reject-or-coherent", res |-> NONE]
  /\ UNCHANGED absView

-----------------------------------------------------------------------------
\* In a sweep (SweepMode) only the first step is free; later steps are generated only for the
\* operation names in SweepOps (the action constraints Sweep / SweepAfterReload then select exactly).
SweepGate(names) == ~SweepMode \/ TLCGet("level") = 1 \/ (TLCGet("level") <= 3 /\ names \cap SweepOps # {})
G(names) == Gate(names)
SetNames == {"set.add", "set.discard", "set.remove", "set.pop", "set.clear", "set.update", "set.ior", "set.iand",
             "set.isub", "set.ixor"}
ListNames == {"list.insert", "list.append", "list.remove", "list.setitem", "list.extend", "list.iadd", "list.setslice",
              "list.delitem", "list.pop", "list.delslice", "list.clear", "list.reverse"}
SetQNames == {"set.or", "set.ror", "set.and", "set.rand", "set.sub", "set.rsub", "set.xor", "set.rxor", "set.eq",
              "set.ne", "set.le", "set.lt", "set.ge", "set.gt", "set.isdisjoint"}
ListQNames == {"list.get", "list.slice", "list.index", "list.count", "list.contains", "list.len"}
SymxNames == {"symx.set", "symx.setdefault", "symx.del", "symx.pop", "symx.get", "symx.contains", "symx.popitem",
              "symx.clear", "symx.len", "symx.update", "symx.assign"}
CfgNames == {"cfg.add", "cfg.discard", "cfg.remove", "cfg.contains", "cfg.pop", "cfg.clear", "cfg.update", "cfg.ior",
             "cfg.iand", "cfg.isub", "cfg.ixor"}
\* (Next stays a plain disjunction: TLC's simulator picks one disjunct at random and computes only its
\* successors; wrapping it in a conjunction made every simulation step enumerate all successors.)
Next ==
  \/ G({"setparent"}) /\ \E c \in Children : \E p \in ParentsOf(c) \cup {NONE} : SetParent(c, p)
  \/ G(SetNames) /\ \E r \in Rels : OnR("set", r) /\ \E p \in RelParents(r) : SetMut(r, p)
  \/ G(SetQNames) /\ \E r \in Rels : OnR("setq", r) /\ \E p \in RelParents(r) : SetQuery(r, p)
  \/ G(SetNames \cup SetQNames) /\ \E r \in Rels : OnR("xkind", r) /\ \E p \in RelParents(r) : SetForeign(r, p)
  \/ G(ListNames) /\ On("list") /\ \E i \in IRs : ListMut(i)
  \/ G(ListQNames) /\ On("listq") /\ \E i \in IRs : ListQuery(i)
  \/ \E v \in Intervals : \/ G({"attr.addr"}) /\ \E a \in Addrs \cup {NOADDR} : SetAddr(v, a)
                          \/ G({"attr.isize"}) /\ \E z \in ISizes : SetISize(v, z)
                          \/ G({"attr.bytes"}) /\ \E bs \in UNION {[1..k -> ByteVals] : k \in 0..MaxBytes} : SetBytes(v, bs)
                          \/ G({"attr.initsize"}) /\ \E k \in 0..MaxBytes : SetInitSize(v, k)
                          \/ G(SymxNames) /\ SymxOp(v)
  \/ \E b \in Blocks : (G({"attr.off"}) /\ \E o \in Offs : SetOff(b, o)) \/ (G({"attr.bsize"}) /\ \E z \in BSizes : SetBSize(b, z))
  \/ \E y \in Symbols : \/ G({"sym.name"}) /\ \E nm \in Names : SetName(y, nm)
                        \/ G({"sym.payload"}) /\ \E pv \in Referents \cup Pays \cup {NONE} : SetPayload(y, pv)
  \/ G({"ctor.interval"}) /\ \E z \in ISizes, bs \in UNION {[1..k -> ByteVals] : k \in 0..MaxBytes} : CtorInterval(z, bs)
  \/ G({"mod.entry"}) /\ \E m \in Modules, c \in CodeBlocks \cup {NONE} : SetEntry(m, c)
  \/ G({"tag.add", "tag.del"}) /\ \E h \in TagHolders, t \in Tags : TagOp(h, t)
  \/ G({"scal"}) /\ \E h \in ScalHolders : \E f \in FieldsOf(h) : \E t \in ScalDom[f] : SetScalar(h, f, t)
  \/ G(CfgNames) /\ \E i \in IRs : CfgOp(i) \/ CfgSmall(i)
  \/ G({"lookup"}) /\ \E x \in Nodes, fam \in LFams, q \in Queries : Lookup(x, fam, q)
  \/ G({"new"}) /\ \E n \in Nodes : \E p \in (IF n \in IRs THEN {} ELSE ParentsOf(n)) \cup {NONE} :
       \E K \in UpTo(ChildKinds(n), ArgMax) : New(n, p, K)
  \/ G({"reload"}) /\ \E i \in IRs, w \in 1..ReloadWeight : Reload(i) \/ ReloadRefused(i)
  \/ G({"loadfault"}) /\ \E i \in IRs : LoadFault(i)
  \/ G({"readmsg"}) /\ \E i \in IRs : ReadMsg(i)
  \/ G({"writemsg"}) /\ \E i \in IRs : WriteMsg(i)

\* state constraints for "one perturbation, then ..." sweeps
Depth2 == TLCGet("level") <= 2
Depth3 == TLCGet("level") <= 3
\* action constraint: any one step from the initial state, then only save+load
Sweep == TLCGet("level") = 1 \/ (TLCGet("level") = 2 /\ op'.name \in SweepOps)
\* action constraint: save+load first, then any one step of the listed kinds
SweepAfterReload == (TLCGet("level") = 1 /\ op'.name = "reload") \/ (TLCGet("level") = 2 /\ op'.name \in SweepOps)
SweepAfterReload2 == (TLCGet("level") = 1 /\ op'.name = "reload") \/ (TLCGet("level") \in {2, 3} /\ op'.name \in SweepOps)

-----------------------------------------------------------------------------
(* Invariants.                                                               *)

\* C03: the UUID table of every IR holds exactly the nodes reachable from it
CacheInv == \A i \in IRs : cache[i] = Sub(S0, i)
\* C04: both ends of every relation agree; at most one parent; no duplicates
ForestInv ==
  /\ \A c \in Children : \A p \in IRs \cup SetParents : (c \in KidsOf(S0, p)) <=> (par[c] = p)
  /\ \A i \in IRs : \A a, b \in 1..Len(mods[i]) : a # b => mods[i][a] # mods[i][b]
  /\ \A c \in Children : par[c] # NONE => par[c] \in ParentsOf(c)
\* C10: the two symbol indexes equal a scan
NameIdxInv == \A m \in Modules, nm \in Names : nidx[m][nm] = SymbolsNamed(m, nm)
RefIdxInv  == \A m \in Modules, b \in Referents :
                 ridx[m][b] = {y \in kids[m] \cap Symbols : pay[y] = b}
\* C19: stored bytes never exceed the interval size
BytesInv == \A v \in Intervals : Len(bytes[v]) <= isz[v]
\* symbolic_expressions is a mapping
SymxInv == \A v \in Intervals : \A a, b \in symx[v] : a[1] = b[1] => a = b

-----------------------------------------------------------------------------
(* What is printed for the conformance harness.                              *)

AggOf(x) ==
  LET D == Sub(S0, x) \ {x} IN
  [sections |-> D \cap Sections, symbols |-> D \cap Symbols, proxy_blocks |-> D \cap Proxies,
   byte_intervals |-> D \cap Intervals, byte_blocks |-> D \cap Blocks,
   code_blocks |-> D \cap CodeBlocks, data_blocks |-> D \cap DataBlocks,
   cfg_nodes |-> D \cap CfgNodes]
Field(k) ==
  CASE k = "mods" -> mods [] k = "kids" -> kids [] k = "par" -> par [] k = "cache" -> cache
    [] k = "addr" -> addr [] k = "isz" -> isz [] k = "off" -> off [] k = "bsz" -> bsz
    [] k = "sname" -> sname [] k = "pay" -> pay [] k = "symx" -> symx [] k = "cfg" -> cfg
    [] k = "bytes" -> bytes [] k = "tags" -> tags [] k = "entry" -> entry
    [] k = "built" -> built [] k = "nev" -> nev [] k = "scal" -> scal
    [] k = "deq" -> [i \in IRs |-> IF shadow[i] = NoShadow THEN "none"
                                   ELSE IF ~SelfContained(i) THEN "unknown"
                                   ELSE IF Content(i) = shadow[i].content THEN "equal" ELSE "differ"]
    [] k = "deqn" -> [i \in IRs |-> [n \in Twinned(i) |-> IF ~SelfContained(i) THEN "unknown"
                                                           ELSE IF NodeDeq(i, n) THEN "equal" ELSE "differ"]]
    [] k = "shadowed" -> [i \in IRs |-> IF shadow[i] = NoShadow THEN "none" ELSE ToJson(shadow[i].content)]
    [] k = "mnamed" -> [i \in IRs |-> [nm \in ScalDom["name"] |-> {m \in ToSet(mods[i]) : scal[m]["name"] = nm}]]
    [] k = "irof" -> [c \in Children |-> IrOf(S0, c)]
    [] k = "modof" -> [c \in Children \ Modules |-> ModOf(c)]
    [] k = "secof" -> [c \in Intervals \cup Blocks |-> SecOf(c)]
    [] k = "agg" -> [x \in IRs \cup Modules \cup Sections |-> AggOf(x)]
    [] k = "named" -> [m \in Modules |-> [nm \in Names |-> SymbolsNamed(m, nm)]]
    [] k = "refs" -> [b \in Referents |-> References(b)]
    [] k = "baddr" -> [b \in Blocks |-> BAddr(b)]
    [] k = "bbytes" -> [b \in Blocks |-> BBytes(b)]
    [] k = "secext" -> [s \in Sections |-> <<SecAddr(s), SecSize(s)>>]
    [] k = "outs" -> [i \in IRs |-> [n \in CfgNodes |-> OutEdges(i, n)]]
    [] k = "ins" -> [i \in IRs |-> [n \in CfgNodes |-> InEdges(i, n)]]
    [] k = "nout" -> [n \in CfgNodes |-> IF IrOf(S0, n) = NONE THEN {} ELSE OutEdges(IrOf(S0, n), n)]
    [] k = "nin" -> [n \in CfgNodes |-> IF IrOf(S0, n) = NONE THEN {} ELSE InEdges(IrOf(S0, n), n)]
BaseKeys == {"mods", "kids", "par", "cache", "addr", "isz", "off", "bsz", "sname", "pay", "symx",
             "cfg", "bytes", "tags", "entry", "built", "nev", "scal", "shadowed"}
\* identity of a state for the harness: the base variables that are printed
KeyRec == [k \in EmitKeys \cap BaseKeys |-> Field(k)]
StateRec == [k \in EmitKeys |-> Field(k)]
Spec == Init /\ [][Next]_vars
Emit == PrintT(ToJson([pre |-> KeyRec, op |-> op', post |-> StateRec', lvl |-> TLCGet("level")]))

=============================================================================
