------------------------------ MODULE TypeName ------------------------------
(***************************************************************************)
(* AuxData type names (C15):   T ::= name | name '<' T (',' T)* '>'        *)
(* where a name is a non-empty run of characters other than '<' '>' ','.   *)
(* Characters are code points.  Three formulations that TLC checks against *)
(* each other on every string up to MaxLen over Chars:                     *)
(*   - Gen: the set of derivable strings with their trees (generative);    *)
(*   - PT / PArgs: a recursive-descent transcription (gives the tree of    *)
(*     strings of any length, used to judge recorded parses);              *)
(*   - a character-level push-down recogniser whose transitions are the    *)
(*     state graph TLC explores (one state per string).                    *)
(***************************************************************************)
EXTENDS Naturals, Sequences, FiniteSets, TLC, Json
CONSTANTS MaxLen, Chars
LT == 60  GT == 62  COMMA == 44
Delims == {LT, GT, COMMA}
NameChars == Chars \ Delims

---------------------------------------------------------------------------
(* recursive descent *)
Fail == [ok |-> FALSE]
RECURSIVE NameEnd(_, _)
NameEnd(s, i) == IF i > Len(s) \/ s[i] \in Delims THEN i ELSE NameEnd(s, i + 1)
RECURSIVE PT(_, _), PArgs(_, _)
PT(s, i) ==
  LET j == NameEnd(s, i) IN
  IF j = i THEN Fail
  ELSE IF j <= Len(s) /\ s[j] = LT
       THEN LET a == PArgs(s, j + 1) IN
            IF a.ok /\ a.j <= Len(s) /\ s[a.j] = GT
            THEN [ok |-> TRUE, tree |-> [name |-> SubSeq(s, i, j - 1), subs |-> a.trees], j |-> a.j + 1]
            ELSE Fail
       ELSE [ok |-> TRUE, tree |-> [name |-> SubSeq(s, i, j - 1), subs |-> <<>>], j |-> j]
PArgs(s, i) ==
  LET t == PT(s, i) IN
  IF ~t.ok THEN Fail
  ELSE IF t.j <= Len(s) /\ s[t.j] = COMMA
       THEN LET r == PArgs(s, t.j + 1) IN
            IF r.ok THEN [ok |-> TRUE, trees |-> <<t.tree>> \o r.trees, j |-> r.j] ELSE Fail
       ELSE [ok |-> TRUE, trees |-> <<t.tree>>, j |-> t.j]
Accepts(s) == LET t == PT(s, 1) IN t.ok /\ t.j = Len(s) + 1
TreeOf(s) == PT(s, 1).tree
\* printing a tree gives the name back
RECURSIVE Show(_), ShowList(_)
Show(t) == IF t.subs = <<>> THEN t.name ELSE t.name \o <<LT>> \o ShowList(t.subs) \o <<GT>>
ShowList(ts) == IF Len(ts) = 1 THEN Show(ts[1]) ELSE Show(ts[1]) \o <<COMMA>> \o ShowList(Tail(ts))

---------------------------------------------------------------------------
(* generative definition: derivable strings of exact length n, with trees *)
NamesOfLen(n) == [1..n -> NameChars]
RECURSIVE D(_), L(_)
D(n) == IF n <= 0 THEN {}
        ELSE {[s |-> nm, t |-> [name |-> nm, subs |-> <<>>]] : nm \in NamesOfLen(n)}
             \cup UNION {{[s |-> nm \o <<LT>> \o a.s \o <<GT>>, t |-> [name |-> nm, subs |-> a.ts]] :
                            nm \in NamesOfLen(i), a \in L(n - i - 2)} : i \in 1..(n - 3)}
L(j) == IF j <= 0 THEN {}
        ELSE {[s |-> d.s, ts |-> <<d.t>>] : d \in D(j)}
             \cup UNION {{[s |-> d.s \o <<COMMA>> \o r.s, ts |-> <<d.t>> \o r.ts] :
                            d \in D(a), r \in L(j - a - 1)} : a \in 1..(j - 2)}
GenAll == UNION {D(n) : n \in 1..MaxLen}
GenStrings == {g.s : g \in GenAll}

---------------------------------------------------------------------------
(* push-down recogniser: one TLC state per string *)
VARIABLES str, phase, depth
vars == <<str, phase, depth>>
Init == str = <<>> /\ phase = "start" /\ depth = 0
Step(c) ==
  /\ Len(str) < MaxLen
  /\ str' = Append(str, c)
  /\ IF phase = "dead" THEN phase' = "dead" /\ depth' = depth
     ELSE IF c \notin Delims THEN
            IF phase \in {"start", "name"} THEN phase' = "name" /\ depth' = depth
            ELSE phase' = "dead" /\ depth' = depth
     ELSE IF c = LT THEN
            IF phase = "name" THEN phase' = "start" /\ depth' = depth + 1
            ELSE phase' = "dead" /\ depth' = depth
     ELSE IF c = COMMA THEN
            IF phase \in {"name", "closed"} /\ depth > 0 THEN phase' = "start" /\ depth' = depth
            ELSE phase' = "dead" /\ depth' = depth
     ELSE IF phase \in {"name", "closed"} /\ depth > 0 THEN phase' = "closed" /\ depth' = depth - 1
          ELSE phase' = "dead" /\ depth' = depth
Next == \E c \in Chars : Step(c)
Spec == Init /\ [][Next]_vars
Accept == phase \in {"name", "closed"} /\ depth = 0

RecogniserIsParser == Accept <=> Accepts(str)
ParserIsGrammar == Accepts(str) <=> (str \in GenStrings)
TreeIsGrammarTree == Accepts(str) => [s |-> str, t |-> TreeOf(str)] \in GenAll
Unambiguous == \A g \in GenAll : g.s = str => g.t = TreeOf(str)
PrintsBack == Accepts(str) => Show(TreeOf(str)) = str
\* printed for the harness (always TRUE)
EmitS == PrintT(ToJson([s |-> str, ok |-> Accept, tree |-> IF Accepts(str) THEN TreeOf(str) ELSE <<>>]))
=============================================================================
