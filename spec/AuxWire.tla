------------------------------- MODULE AuxWire -------------------------------
(***************************************************************************)
(* The AuxData wire format shared by all GTIRB APIs (C07, C08), written    *)
(* from AuxData.md and the "Serialization Format" notes of                 *)
(* include/gtirb/AuxData.hpp -- not from the Python codecs:                *)
(*   integers    fixed width, little endian, two's complement              *)
(*   Addr        as uint64_t                                               *)
(*   bool        one byte                                                  *)
(*   float/double IEEE-754 binary32/binary64, little endian                *)
(*   string      uint64 count of UTF-8 BYTES, then the bytes               *)
(*   UUID        16 raw bytes;  Offset = UUID then uint64 displacement     *)
(*   sequence/set<T>   uint64 element count, then the elements             *)
(*   mapping<K,V>      uint64 pair count, then key, value, key, value ...  *)
(*   tuple<T...>       the fields in order                                 *)
(*   variant<T...>     uint64 index of the alternative, then its encoding  *)
(*                                                                         *)
(* TLC integers are 32 bit, so wide integers are little-endian sequences   *)
(* of 16-bit limbs with a sign:  [neg |-> BOOLEAN, mag |-> <<l0,l1,l2,l3>>].*)
(* Floats are their fields: [s |-> 0|1, e |-> biased exponent, m |-> limbs].*)
(* Strings are sequences of code points; bytes are sequences of 0..255.    *)
(* Type trees are [name |-> STRING, subs |-> sequence of type trees].      *)
(***************************************************************************)
EXTENDS Integers, Sequences, FiniteSets, TLC

IntWidth(n) == CASE n \in {"uint8_t", "int8_t"} -> 1 [] n \in {"uint16_t", "int16_t"} -> 2
                 [] n \in {"uint32_t", "int32_t"} -> 4 [] n \in {"uint64_t", "int64_t", "Addr"} -> 8
IntNames == {"uint8_t", "int8_t", "uint16_t", "int16_t", "uint32_t", "int32_t", "uint64_t", "int64_t", "Addr"}
Signed(n) == n \in {"int8_t", "int16_t", "int32_t", "int64_t"}

\* a count/length below 2^31 as uint64
U64(n) == <<(n % 256), (((n \div 256)) % 256), (((n \div 65536)) % 256), (((n \div 16777216)) % 256), 0, 0, 0, 0>>
\* ... and back (the four high bytes must be zero for anything TLC can hold)
U64Val(bs, p) == bs[p] + 256 * bs[p + 1] + 65536 * bs[p + 2] + 16777216 * bs[p + 3]
U64Small(bs, p) == bs[p + 3] < 128 /\ bs[p + 4] = 0 /\ bs[p + 5] = 0 /\ bs[p + 6] = 0 /\ bs[p + 7] = 0

MagBytes(mag) == [i \in 1..8 |-> IF (i % 2) = 1 THEN (mag[((i + 1) \div 2)] % 256) ELSE (mag[(i \div 2)] \div 256)]
Complement(bs) == [i \in 1..Len(bs) |-> 255 - bs[i]]
RECURSIVE AddOne(_, _)
AddOne(bs, i) == IF i > Len(bs) THEN bs
                 ELSE IF bs[i] = 255 THEN AddOne([bs EXCEPT ![i] = 0], i + 1)
                 ELSE [bs EXCEPT ![i] = bs[i] + 1]
IntBytes(x, w) == LET raw == SubSeq(MagBytes(x.mag), 1, w)
                  IN IF x.neg THEN AddOne(Complement(raw), 1) ELSE raw
\* bytes -> [neg, mag] (mag padded to four limbs)
Pad8(bs) == bs \o [i \in 1..(8 - Len(bs)) |-> 0]
Limbs(b8) == [k \in 1..4 |-> b8[2 * k - 1] + 256 * b8[2 * k]]
IntOf(bs, signed) ==
  IF signed /\ bs[Len(bs)] >= 128
  THEN [neg |-> TRUE, mag |-> Limbs(Pad8(AddOne(Complement(bs), 1)))]
  ELSE [neg |-> FALSE, mag |-> Limbs(Pad8(bs))]

Utf8(cp) == IF cp < 128 THEN <<cp>>
            ELSE IF cp < 2048 THEN <<192 + (cp \div 64), 128 + (cp % 64)>>
            ELSE IF cp < 65536 THEN <<224 + (cp \div 4096), 128 + (((cp \div 64)) % 64), 128 + (cp % 64)>>
            ELSE <<240 + (cp \div 262144), 128 + (((cp \div 4096)) % 64), 128 + (((cp \div 64)) % 64), 128 + (cp % 64)>>
RECURSIVE Utf8Str(_)
Utf8Str(s) == IF s = <<>> THEN <<>> ELSE Utf8(Head(s)) \o Utf8Str(Tail(s))
\* decode UTF-8; total: ill-formed or truncated input gives ok = FALSE
Cont(bs, p) == bs[p] >= 128 /\ bs[p] < 192
RECURSIVE Utf8Dec(_, _, _)
Utf8Dec(bs, p, q) ==   \* code points of bs[p..q-1]
  IF p >= q THEN [ok |-> TRUE, v |-> <<>>]
  ELSE LET b == bs[p]
           k == IF b < 128 THEN 1 ELSE IF b < 192 THEN 0 ELSE IF b < 224 THEN 2 ELSE IF b < 240 THEN 3
                ELSE IF b < 248 THEN 4 ELSE 0
       IN IF k = 0 \/ p + k > q \/ \E j \in 1..(k - 1) : ~Cont(bs, p + j) THEN [ok |-> FALSE, v |-> <<>>]
          ELSE LET cp == CASE k = 1 -> b
                           [] k = 2 -> (b - 192) * 64 + (bs[p + 1] - 128)
                           [] k = 3 -> (b - 224) * 4096 + (bs[p + 1] - 128) * 64 + (bs[p + 2] - 128)
                           [] k = 4 -> (b - 240) * 262144 + (bs[p + 1] - 128) * 4096 + (bs[p + 2] - 128) * 64
                                       + (bs[p + 3] - 128)
                   r == Utf8Dec(bs, p + k, q)
               IN IF r.ok THEN [ok |-> TRUE, v |-> <<cp>> \o r.v] ELSE r

\* IEEE-754: double = s(1) e(11) m(52: limbs l0 l1 l2 and 4 bits of l3); float = s(1) e(8) m(23: l0 and 7 bits of l1)
DoubleBytes(f) == <<(f.m[1] % 256), (f.m[1] \div 256), (f.m[2] % 256), (f.m[2] \div 256), (f.m[3] % 256), (f.m[3] \div 256),
                    f.m[4] + ((f.e % 16)) * 16, (f.e \div 16) + f.s * 128>>
FloatBytes(f) == <<(f.m[1] % 256), (f.m[1] \div 256), f.m[2] + ((f.e % 2)) * 128, (f.e \div 2) + f.s * 128>>
DoubleOf(bs, p) == [s |-> (bs[p + 7] \div 128), e |-> ((bs[p + 7] % 128)) * 16 + (bs[p + 6] \div 16),
                    m |-> <<bs[p] + 256 * bs[p + 1], bs[p + 2] + 256 * bs[p + 3], bs[p + 4] + 256 * bs[p + 5], (bs[p + 6] % 16)>>]
FloatOf(bs, p) == [s |-> (bs[p + 3] \div 128), e |-> ((bs[p + 3] % 128)) * 2 + (bs[p + 2] \div 128),
                   m |-> <<bs[p] + 256 * bs[p + 1], (bs[p + 2] % 128)>>]

---------------------------------------------------------------------------
RECURSIVE Enc(_, _), EncAll(_, _), EncPairs(_, _, _), EncFields(_, _)
Enc(t, v) ==
  LET n == t.name IN
  CASE n \in IntNames -> IntBytes(v, IntWidth(n))
    [] n = "bool" -> IF v THEN <<1>> ELSE <<0>>
    [] n = "double" -> DoubleBytes(v)
    [] n = "float" -> FloatBytes(v)
    [] n = "string" -> LET u == Utf8Str(v) IN U64(Len(u)) \o u
    [] n = "UUID" -> v
    [] n = "Offset" -> v.u \o IntBytes(v.d, 8)
    [] n \in {"sequence", "set"} -> U64(Len(v)) \o EncAll(t.subs[1], v)
    [] n = "mapping" -> U64(Len(v)) \o EncPairs(t.subs[1], t.subs[2], v)
    [] n = "tuple" -> EncFields(t.subs, v)
    [] n = "variant" -> U64(v.i) \o Enc(t.subs[v.i + 1], v.v)
EncAll(t, vs) == IF vs = <<>> THEN <<>> ELSE Enc(t, Head(vs)) \o EncAll(t, Tail(vs))
EncPairs(tk, tv, ps) == IF ps = <<>> THEN <<>>
                        ELSE Enc(tk, Head(ps)[1]) \o Enc(tv, Head(ps)[2]) \o EncPairs(tk, tv, Tail(ps))
EncFields(ts, vs) == IF ts = <<>> THEN <<>> ELSE Enc(Head(ts), Head(vs)) \o EncFields(Tail(ts), Tail(vs))

\* Dec(t, bs, p) = [ok, v |-> value, p |-> position after it]; total: ok = FALSE when bs is too
\* short or ill formed for t at p (so that bytes produced by a faulty encoder can be judged)
Bad == [ok |-> FALSE, v |-> <<>>, p |-> 0]
Good(v, p) == [ok |-> TRUE, v |-> v, p |-> p]
Has(bs, p, w) == p >= 1 /\ p + w - 1 <= Len(bs)
Count(bs, p) == Has(bs, p, 8) /\ U64Small(bs, p) /\ U64Val(bs, p) <= Len(bs)
RECURSIVE Dec(_, _, _), DecN(_, _, _, _), DecPairs(_, _, _, _, _), DecFields(_, _, _)
Dec(t, bs, p) ==
  LET n == t.name IN
  CASE n \in IntNames -> IF Has(bs, p, IntWidth(n))
                         THEN Good(IntOf(SubSeq(bs, p, p + IntWidth(n) - 1), Signed(n)), p + IntWidth(n)) ELSE Bad
    [] n = "bool" -> IF Has(bs, p, 1) THEN Good(bs[p] # 0, p + 1) ELSE Bad
    [] n = "double" -> IF Has(bs, p, 8) THEN Good(DoubleOf(bs, p), p + 8) ELSE Bad
    [] n = "float" -> IF Has(bs, p, 4) THEN Good(FloatOf(bs, p), p + 4) ELSE Bad
    [] n = "string" -> IF Count(bs, p) /\ Has(bs, p + 8, U64Val(bs, p))
                       THEN LET k == U64Val(bs, p)  u == Utf8Dec(bs, p + 8, p + 8 + k)
                            IN IF u.ok THEN Good(u.v, p + 8 + k) ELSE Bad
                       ELSE Bad
    [] n = "UUID" -> IF Has(bs, p, 16) THEN Good(SubSeq(bs, p, p + 15), p + 16) ELSE Bad
    [] n = "Offset" -> IF Has(bs, p, 24)
                       THEN Good([u |-> SubSeq(bs, p, p + 15), d |-> IntOf(SubSeq(bs, p + 16, p + 23), FALSE)], p + 24)
                       ELSE Bad
    [] n \in {"sequence", "set"} -> IF Count(bs, p) THEN DecN(t.subs[1], bs, p + 8, U64Val(bs, p)) ELSE Bad
    [] n = "mapping" -> IF Count(bs, p) THEN DecPairs(t.subs[1], t.subs[2], bs, p + 8, U64Val(bs, p)) ELSE Bad
    [] n = "tuple" -> DecFields(t.subs, bs, p)
    [] n = "variant" -> IF Count(bs, p) /\ U64Val(bs, p) < Len(t.subs)
                        THEN LET i == U64Val(bs, p)  r == Dec(t.subs[i + 1], bs, p + 8)
                             IN IF r.ok THEN Good([i |-> i, v |-> r.v], r.p) ELSE Bad
                        ELSE Bad
DecN(t, bs, p, k) == IF k = 0 THEN Good(<<>>, p)
                     ELSE LET a == Dec(t, bs, p) IN
                          IF ~a.ok THEN Bad
                          ELSE LET r == DecN(t, bs, a.p, k - 1) IN IF r.ok THEN Good(<<a.v>> \o r.v, r.p) ELSE Bad
DecPairs(tk, tv, bs, p, k) ==
  IF k = 0 THEN Good(<<>>, p)
  ELSE LET a == Dec(tk, bs, p) IN
       IF ~a.ok THEN Bad
       ELSE LET b == Dec(tv, bs, a.p) IN
            IF ~b.ok THEN Bad
            ELSE LET r == DecPairs(tk, tv, bs, b.p, k - 1) IN
                 IF r.ok THEN Good(<< <<a.v, b.v>> >> \o r.v, r.p) ELSE Bad
DecFields(ts, bs, p) == IF ts = <<>> THEN Good(<<>>, p)
                        ELSE LET a == Dec(Head(ts), bs, p) IN
                             IF ~a.ok THEN Bad
                             ELSE LET r == DecFields(Tail(ts), bs, a.p) IN
                                  IF r.ok THEN Good(<<a.v>> \o r.v, r.p) ELSE Bad

\* canonical form for comparing values: sets and mappings lose their order (and duplicates)
RECURSIVE Canon(_, _)
Canon(t, v) ==
  LET n == t.name IN
  CASE n = "sequence" -> [i \in 1..Len(v) |-> Canon(t.subs[1], v[i])]
    [] n = "set" -> {Canon(t.subs[1], v[i]) : i \in 1..Len(v)}
    [] n = "mapping" -> {<<Canon(t.subs[1], v[i][1]), Canon(t.subs[2], v[i][2])>> : i \in 1..Len(v)}
    [] n = "tuple" -> [i \in 1..Len(v) |-> Canon(t.subs[i], v[i])]
    [] n = "variant" -> [i |-> v.i, v |-> Canon(t.subs[v.i + 1], v.v)]
    [] n \in IntNames -> IF v.mag = <<0, 0, 0, 0>> THEN [neg |-> FALSE, mag |-> v.mag] ELSE v
    [] OTHER -> v
\* a mapping value is a function: no key twice
RECURSIVE WellFormed(_, _)
WellFormed(t, v) ==
  LET n == t.name IN
  CASE n \in {"sequence", "set"} -> \A i \in 1..Len(v) : WellFormed(t.subs[1], v[i])
    [] n = "mapping" -> \A i \in 1..Len(v) : WellFormed(t.subs[1], v[i][1]) /\ WellFormed(t.subs[2], v[i][2])
    [] n = "tuple" -> Len(v) = Len(t.subs) /\ \A i \in 1..Len(v) : WellFormed(t.subs[i], v[i])
    [] n = "variant" -> v.i < Len(t.subs) /\ WellFormed(t.subs[v.i + 1], v.v)
    [] OTHER -> TRUE
=============================================================================
