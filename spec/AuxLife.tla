------------------------------- MODULE AuxLife -------------------------------
(***************************************************************************)
(* Life cycle of one AuxData table (C14): loaded lazily, maybe read,       *)
(* mutated in place, replaced, given another type name; saved (any number  *)
(* of times) and reloaded over several generations.                        *)
(*                                                                         *)
(* Two layers.  Req is what the property demands of the bytes written by   *)
(* save.  Impl* is the mechanism of gtirb.auxdata (hold the raw bytes in a *)
(* lazy container; write them back iff the container is still there and    *)
(* the type name is unchanged; reading decodes, and a type that involves a *)
(* name without codec decodes to a blob of the raw bytes).  TLC checks     *)
(* ImplOut = Req on every reachable state.  UpFront = TRUE is the design   *)
(* in which the decoder recognises an unknown name anywhere in the type    *)
(* before decoding; UpFront = FALSE is the design in which it notices only *)
(* when decoding reaches the name -- for which TLC exhibits the            *)
(* counterexample (unreached unknown name, non-canonical bytes, read,      *)
(* save).                                                                  *)
(***************************************************************************)
EXTENDS Naturals, Sequences, TLC, Json
CONSTANTS Kinds,     \* subset of {"known", "top", "reached", "unreached"}
          UpFront,   \* BOOLEAN
          MaxGen, MaxOps
Types == {"T0", "T1"}          \* the type name loaded with, and another one fitting the value
Vals  == {"v0", "vm", "vn"}    \* as decoded from the first file / mutated in place / assigned
ANY == [val |-> "any", ty |-> "any", canon |-> TRUE]
Cell(k, v) == [k |-> k, v |-> v]
NoCell == Cell("none", "-")
Blob == Cell("blob", "-")

\* bytes are what they decode to, the type they were written under, and whether they are canonical
B(val, ty, c) == [val |-> val, ty |-> ty, canon |-> c]
Enc(val, ty) == B(val, ty, TRUE)

VARIABLES kind, raw, lazyType, lz, typeName, dcell, gen, nops, op, moved
\* kind      what the loaded type name is to this API
\* raw       bytes the table was loaded with (this generation)
\* lazyType  type name it was loaded with
\* lz        the lazy container is still attached (data never read, never assigned)
\* typeName  current type_name
\* dcell     NoCell | Cell("val", v) | Blob     the _data cell
\* moved     the holder of the table changed hands since the table was loaded
vars == <<kind, raw, lazyType, lz, typeName, dcell, gen, nops, op, moved>>
view == <<kind, raw, lazyType, lz, typeName, dcell, gen, moved>>

Init == /\ kind \in Kinds
        /\ raw \in {B("v0", "T0", TRUE), B("v0", "T0", FALSE)}
        /\ lazyType = "T0" /\ lz = TRUE /\ typeName = "T0" /\ dcell = NoCell
        /\ gen = 1 /\ nops = 0 /\ op = [name |-> "load", kind |-> kind, canon |-> raw.canon] /\ moved = FALSE

Unknown == kind # "known"
\* what decoding raw (under the type it was loaded with) yields
Decoded == IF kind = "known" THEN Cell("val", raw.val)
           ELSE IF UpFront \/ kind \in {"top", "reached"} THEN Blob
           ELSE Cell("val", raw.val)      \* the decoder never met the unknown name
\* the data getter
DataAfterGet == IF lz THEN Decoded ELSE dcell

\* ---- what save writes (mechanism), and the state it leaves behind (the getter runs inside save)
ImplOut ==
  IF lz /\ typeName = lazyType THEN [type |-> typeName, bytes |-> raw]
  ELSE LET d == DataAfterGet IN
       IF d = Blob THEN [type |-> typeName, bytes |-> raw]
       ELSE IF Unknown THEN [type |-> typeName, bytes |-> IF kind = "unreached" /\ ~UpFront
                                                          THEN Enc(d.v, typeName) ELSE ANY]
       ELSE [type |-> typeName, bytes |-> Enc(d.v, typeName)]
SaveTouches == ~(lz /\ typeName = lazyType)

\* ---- what the property demands
Touched == ~lz \/ typeName # lazyType
OnlyRead == typeName = lazyType /\ (lz \/ dcell = Blob \/ dcell = Cell("val", raw.val))
CurVal == IF lz THEN raw.val ELSE dcell.v
Req ==
  IF ~Touched THEN [type |-> lazyType, bytes |-> raw]                       \* sentence 1
  ELSE IF ~Unknown THEN [type |-> typeName, bytes |-> Enc(CurVal, typeName)]  \* sentence 2
  ELSE IF OnlyRead THEN [type |-> typeName, bytes |-> raw]                  \* sentence 3
  ELSE [type |-> typeName, bytes |-> ANY]
Agrees(a, b) == a.type = b.type /\ (a.bytes = b.bytes \/ a.bytes = ANY \/ b.bytes = ANY)
SaveMeetsReq == Agrees(ImplOut, Req)
\* sentence 2, second half: a changed value or type is never written as the loaded bytes
NeverStale == (~Unknown /\ Touched /\ (CurVal # raw.val \/ typeName # raw.ty)) => Req.bytes # raw

Step(o) == nops < MaxOps /\ nops' = nops + 1 /\ op' = o
Read == /\ Step([name |-> "read"]) /\ lz' = FALSE /\ dcell' = DataAfterGet
        /\ UNCHANGED <<kind, raw, lazyType, typeName, gen, moved>>
Mutate == /\ DataAfterGet # Blob /\ ~Unknown
          /\ Step([name |-> "mutate"]) /\ lz' = FALSE /\ dcell' = Cell("val", "vm")
          /\ UNCHANGED <<kind, raw, lazyType, typeName, gen, moved>>
AssignData == /\ ~Unknown /\ Step([name |-> "assign"]) /\ lz' = FALSE /\ dcell' = Cell("val", "vn")
              /\ UNCHANGED <<kind, raw, lazyType, typeName, gen, moved>>
AssignType(t) == /\ ~Unknown /\ t # typeName /\ Step([name |-> "settype", t |-> t]) /\ typeName' = t
                 /\ UNCHANGED <<kind, raw, lazyType, lz, dcell, gen, moved>>
Save == /\ Step([name |-> "save", out |-> Req])
        /\ IF SaveTouches THEN lz' = FALSE /\ dcell' = DataAfterGet ELSE UNCHANGED <<lz, dcell>>
        /\ UNCHANGED <<kind, raw, lazyType, typeName, gen, moved>>
Reload == /\ gen < MaxGen /\ Req.bytes # ANY
          /\ Step([name |-> "reload", out |-> Req])
          /\ raw' = Req.bytes /\ lazyType' = typeName /\ lz' = TRUE /\ dcell' = NoCell /\ gen' = gen + 1 /\ moved' = FALSE
          /\ UNCHANGED <<kind, typeName>>
\* the node that holds the table changes hands (a module moved to another IR): nothing about the table changes
Move == /\ ~moved /\ Step([name |-> "move"]) /\ moved' = TRUE
        /\ UNCHANGED <<kind, raw, lazyType, lz, typeName, dcell, gen>>
Next == Read \/ Mutate \/ AssignData \/ (\E t \in Types : AssignType(t)) \/ Save \/ Reload \/ Move
Spec == Init /\ [][Next]_vars
Emit == PrintT(ToJson([pre |-> [kind |-> kind, raw |-> raw, lazyType |-> lazyType, lz |-> lz, typeName |-> typeName,
                                dcell |-> dcell, gen |-> gen, nops |-> nops, moved |-> moved],
                       op |-> op',
                       post |-> [kind |-> kind', raw |-> raw', lazyType |-> lazyType', lz |-> lz', typeName |-> typeName',
                                 dcell |-> dcell', gen |-> gen', nops |-> nops', moved |-> moved'],
                       lvl |-> TLCGet("level")]))
=============================================================================
