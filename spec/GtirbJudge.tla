----------------------------- MODULE GtirbJudge -----------------------------
(***************************************************************************)
(* code -> spec, state based: the harness records, for states it drove the *)
(* real objects into, the observable abstract state and the answers of     *)
(* lookups issued in that state.  TLC loads each recorded state into the   *)
(* variables of Gtirb.tla and evaluates the specification's fresh-scan     *)
(* definitions (BlocksOn, IvsAt, SecAddr, SymxAt, ...) against every       *)
(* recorded answer: each member once, Must \subseteq answer \subseteq May. *)
(***************************************************************************)
EXTENDS Gtirb, IOUtils, TLCExt

Recs == ndJsonDeserialize(IOEnv.JUDGE_FILE)
N == Len(Recs)

VARIABLE idx
jvars == <<vars, idx>>

Get(r, k, dflt) == IF k \in DOMAIN r.st THEN r.st[k] ELSE dflt
FnOr(r, k, D, dflt) == [x \in D |-> IF k \in DOMAIN r.st /\ x \in DOMAIN r.st[k] THEN r.st[k][x] ELSE dflt]
SetFn(r, k, D) == [x \in D |-> IF k \in DOMAIN r.st /\ x \in DOMAIN r.st[k] THEN ToSet(r.st[k][x]) ELSE {}]

Load(r) ==
  /\ mods = [i \in IRs |-> IF "mods" \in DOMAIN r.st /\ i \in DOMAIN r.st.mods THEN r.st.mods[i] ELSE <<>>]
  /\ kids = SetFn(r, "kids", SetParents)
  /\ par = FnOr(r, "par", Children, NONE)
  /\ addr = FnOr(r, "addr", Intervals, NOADDR) /\ isz = FnOr(r, "isz", Intervals, 0)
  /\ off = FnOr(r, "off", Blocks, 0) /\ bsz = FnOr(r, "bsz", Blocks, 0)
  /\ symx = SetFn(r, "symx", Intervals)
  /\ bytes = FnOr(r, "bytes", Intervals, <<>>)
  /\ sname = FnOr(r, "sname", Symbols, DefName) /\ pay = FnOr(r, "pay", Symbols, NONE)
  /\ cfg = SetFn(r, "cfg", IRs)
  /\ cache = [i \in IRs |-> {}] /\ nidx = [m \in Modules |-> <<>>] /\ ridx = [m \in Modules |-> <<>>]
  /\ built = [x \in LazyOwners |-> FALSE] /\ nev = [x \in LazyOwners |-> 0]
  /\ tags = [h \in TagHolders |-> {}] /\ entry = [m \in Modules |-> NONE]
  /\ scal = [h \in ScalHolders |-> [f \in FieldsOf(h) |-> ScalDef[f]]] /\ shadow = [i \in IRs |-> NoShadow]
  /\ op = [name |-> "judge"]

JInit == idx \in 1..N /\ Load(Recs[idx])
JNext == FALSE /\ UNCHANGED jvars
JSpec == JInit /\ [][JNext]_jvars

Kind(f) == IF f \in {"code_blocks_on", "code_blocks_at", "code_blocks_on_offset", "code_blocks_at_offset"} THEN "code"
           ELSE IF f \in {"data_blocks_on", "data_blocks_at", "data_blocks_on_offset", "data_blocks_at_offset"} THEN "data"
           ELSE "byte"

\* <<Must, May>> for the lookup named f at scope x with query q
Expect(f, x, q) ==
  CASE f \in {"byte_blocks_on", "code_blocks_on", "data_blocks_on"} -> BlocksOn(x, Kind(f), q)
    [] f \in {"byte_blocks_at", "code_blocks_at", "data_blocks_at"} -> BlocksAt(x, Kind(f), q)
    [] f \in {"byte_blocks_on_offset", "code_blocks_on_offset", "data_blocks_on_offset"} -> BlocksOnOff(x, Kind(f), q)
    [] f \in {"byte_blocks_at_offset", "code_blocks_at_offset", "data_blocks_at_offset"} -> BlocksAtOff(x, Kind(f), q)
    [] f = "byte_intervals_on" -> IvsOn(x, q)
    [] f = "byte_intervals_at" -> IvsAt(x, q)
    [] f = "sections_on" -> SecsOn(x, q)
    [] f = "sections_at" -> SecsAt(x, q)
    [] f = "symbolic_expressions_at" -> SymxAt(x, q)
    [] f = "symbolic_expressions_at_offset" -> SymxAtOff(x, q)
    [] f = "section_address" -> <<{SecAddr(x)}, {SecAddr(x)}>>
    [] f = "section_size" -> <<{SecSize(x)}, {SecSize(x)}>>
    [] f = "block_address" -> <<{BAddr(x)}, {BAddr(x)}>>
    [] f = "contains_offset" -> <<{ContainsOff(x, q[1])}, {ContainsOff(x, q[1])}>>
    [] f = "contains_address" -> <<{ContainsAddr(x, q[1])}, {ContainsAddr(x, q[1])}>>

\* lookups by name / by referent (C10) carry their own argument; everything else is a (start, stop, step) query
MM(e) == IF e.f = "symbols_named" THEN <<SymbolsNamed(e.x, e.nm), SymbolsNamed(e.x, e.nm)>>
         ELSE IF e.f = "references" THEN <<References(e.x), References(e.x)>>
         ELSE Expect(e.f, e.x, e.q)

Ascending(ans) == \A i \in 1..(Len(ans) - 1) : ans[i][2] < ans[i + 1][2]

QOk(e) ==
  LET mm == MM(e)
      A == ToSet(e.ans)
  IN /\ Cardinality(A) = Len(e.ans)                 \* each member exactly once
     /\ mm[1] \subseteq A /\ A \subseteq mm[2]
     /\ (e.f \in {"symbolic_expressions_at", "symbolic_expressions_at_offset"} /\ e.x \in Intervals
           => Ascending(e.ans))

\* never false: failures are printed (and counted by the harness) so that one run judges everything
Judge ==
  LET r == Recs[idx] IN
  \A k \in 1..Len(r.q) :
     \/ QOk(r.q[k])
     \/ PrintT(ToJson([bad |-> idx, k |-> k, f |-> r.q[k].f, x |-> r.q[k].x, q |-> r.q[k].q,
                       ans |-> r.q[k].ans, must |-> MM(r.q[k])[1],
                       may |-> MM(r.q[k])[2]]))
Done == TLCGet("stats").generated >= 0 /\ PrintT(ToJson([judged |-> N]))
=============================================================================
