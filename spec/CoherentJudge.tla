---------------------------- MODULE CoherentJudge ----------------------------
(***************************************************************************)
(* C17: whatever bytes the loader accepted, the IR it returned must be     *)
(* coherent.  The harness walks a returned IR through the public API and   *)
(* records it with fresh node names; TLC evaluates the structural          *)
(* guarantees (the invariants of Gtirb.tla restated over a recorded        *)
(* universe, since the nodes of a corrupted file are not a configuration   *)
(* constant):                                                              *)
(*   Forest   both ends of every relation agree, one parent, no duplicates *)
(*   Cache    get_by_uuid finds exactly the nodes reachable by containment *)
(*   RefKinds referents are blocks, entry points code blocks, CFG          *)
(*            endpoints CFG nodes, expression symbols symbols, all of them *)
(*            the attached objects                                         *)
(*   Bytes    stored bytes do not exceed the interval size                 *)
(*   Resave   the IR can be saved again                                    *)
(***************************************************************************)
EXTENDS Naturals, Sequences, FiniteSets, TLC, Json, IOUtils, TLCExt, SequencesExt
Recs == ndJsonDeserialize(IOEnv.JUDGE_FILE)
VARIABLE idx
JInit == idx \in 1..Len(Recs)
JNext == FALSE /\ UNCHANGED idx
JSpec == JInit /\ [][JNext]_idx

Nodes(r) == DOMAIN r.kind
KidsOf(r, p) == IF p \in DOMAIN r.kids THEN ToSet(r.kids[p]) ELSE {}
ParentKindOK(ck, pk) == \/ ck = "mod" /\ pk = "ir"
                        \/ ck \in {"sec", "sym", "prx"} /\ pk = "mod"
                        \/ ck = "biv" /\ pk = "sec"
                        \/ ck \in {"code", "data"} /\ pk = "biv"
Forest(r) ==
  /\ \A p \in DOMAIN r.kids : Len(r.kids[p]) = Cardinality(ToSet(r.kids[p]))          \* no duplicates
  /\ \A p \in DOMAIN r.kids : \A c \in ToSet(r.kids[p]) :
        /\ c \in Nodes(r) /\ r.par[c] = p /\ ParentKindOK(r.kind[c], r.kind[p])
  /\ \A c \in Nodes(r) : r.par[c] # "none" => c \in KidsOf(r, r.par[c])
  /\ \A p, q \in DOMAIN r.kids : p # q => KidsOf(r, p) \cap KidsOf(r, q) = {}
  /\ \A c \in Nodes(r) : r.kind[c] = "ir" \/ r.par[c] # "none"                         \* the walk is a tree from the IR
Cache(r) == ToSet(r.cache) = Nodes(r) /\ r.uuids_distinct /\ ToSet(r.foreign_hits) = {}
RefOK(x) ==
  /\ x.same_object
  /\ CASE x.site = "referent" -> x.kind \in {"code", "data", "prx"}
       [] x.site = "entry" -> x.kind = "code"
       [] x.site \in {"edge.src", "edge.tgt"} -> x.kind \in {"code", "prx"}
       [] x.site = "expr.sym" -> x.kind = "sym"
RefKinds(r) == \A k \in 1..Len(r.refs) : RefOK(r.refs[k])
Bytes(r) == \A k \in 1..Len(r.bytes) : r.bytes[k][1] <= r.bytes[k][2]
Resave(r) == r.saves_again

\* The file header: "GTIRB", two reserved bytes, the protobuf version.  A file with another magic or
\* version byte (or too short to have them) must be rejected with ValueError.
Magic == <<71, 84, 73, 82, 66>>
HeaderBad(r) == Len(r.head) < 8 \/ SubSeq(r.head, 1, 5) # Magic \/ r.head[8] # r.pv
Header(r) == HeaderBad(r) => r.outcome = "exc:ValueError"
NoHang(r) == r.outcome # "hang"
\* a message carrying another version field (0 = absent, e.g. after a truncation) is never accepted
Version(r) == r.outcome = "ir" => r.version = r.pv
Coherent(n, r) == r.outcome = "ir" =>
                    CASE n = "Forest" -> Forest(r) [] n = "Cache" -> Cache(r) [] n = "RefKinds" -> RefKinds(r)
                      [] n = "Bytes" -> Bytes(r) [] n = "Resave" -> Resave(r)
\* records of IRs that did not come from a file (states reached by the repository's own tests) name
\* the clauses that apply to them
Clauses(r) == IF "clauses" \in DOMAIN r THEN ToSet(r.clauses) ELSE {"Forest", "Cache", "RefKinds", "Bytes", "Resave"}
Failing(r) == {n \in Clauses(r) : ~Coherent(n, r)}
              \cup (IF Header(r) THEN {} ELSE {"Header"}) \cup (IF NoHang(r) THEN {} ELSE {"NoHang"})
              \cup (IF Version(r) THEN {} ELSE {"Version"})
Judge == Failing(Recs[idx]) = {} \/ PrintT(ToJson([bad |-> idx, failing |-> Failing(Recs[idx])]))
Done == TLCGet("stats").generated >= 0 /\ PrintT(ToJson([judged |-> Len(Recs)]))
=============================================================================
