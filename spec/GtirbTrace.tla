----------------------------- MODULE GtirbTrace -----------------------------
(***************************************************************************)
(* code -> spec with action matching.  A driver executes long random       *)
(* histories of public operations on real gtirb objects (universes larger  *)
(* than TLC can enumerate, sequences TLC's uniform simulator rarely draws) *)
(* and logs, per step, the operation with its arguments and observed       *)
(* result, and the projected state afterwards.  TLC replays each trace     *)
(* through the actions of Gtirb.tla:                                       *)
(*     Next  /\  op' has the logged arguments  /\  op'.res is the logged   *)
(*     result  /\  the primed variables equal the logged projection.       *)
(* Gate narrows Next to the disjunct of the logged operation name, so the  *)
(* search is linear in the trace.  Three markers are printed per step:     *)
(* ARGS (the spec offers this operation with these arguments here: the     *)
(* step is in the specification's scope), RES (with this result), OK       *)
(* (and this post-state).  ARGS without RES is a wrong result, RES         *)
(* without OK a wrong state; no ARGS means the driver left the scope       *)
(* (DESIGN section 4 rule 4) and the rest of that trace is not judged.     *)
(***************************************************************************)
EXTENDS Gtirb, IOUtils, TLCExt

Traces == ndJsonDeserialize(IOEnv.TRACE_FILE)
VARIABLES tid, l
tvars == <<vars, tid, l>>

Steps == Traces[tid].steps
Cur == Steps[l]
TraceGate(names) == l <= Len(Steps) /\ Cur.op.name \in names

\* which logged fields hold sets (JSON arrays standing for sets), by operation name
IsSetField(nm, f) == \/ f = "res_set"
                     \/ f = "a" /\ nm \in SetNames \cup SetQNames \cup CfgNames
                     \/ f = "b" /\ nm = "set.update"
                     \/ f = "k" /\ nm = "new"
                     \/ f = "n" /\ nm \in {"symx.update", "symx.assign"}
FieldOf(o, f) == IF f = "res_set" THEN o.res ELSE o[f]
ArgEq(nm, f, x, y) == IF IsSetField(nm, f) THEN x = ToSet(y) ELSE x = y
ArgsMatch(o, j) == \A f \in DOMAIN j \ {"res", "res_set"} : f \in DOMAIN o /\ ArgEq(j.name, f, o[f], j[f])
ResMatch(o, j) == \A f \in DOMAIN j \cap {"res", "res_set"} : ArgEq(j.name, f, FieldOf(o, f), j[f])

Has(p, k) == k \in DOMAIN p
FnEq(f, j, D) == \A x \in D : f[x] = j[x]
SetFnEq(f, j, D) == \A x \in D : f[x] = ToSet(j[x])
PostOK(p) ==
  /\ Has(p, "mods") => FnEq(mods', p.mods, IRs)
  /\ Has(p, "kids") => SetFnEq(kids', p.kids, SetParents)
  /\ Has(p, "par") => FnEq(par', p.par, Children)
  /\ Has(p, "cache") => SetFnEq(cache', p.cache, IRs)
  /\ Has(p, "addr") => FnEq(addr', p.addr, Intervals)
  /\ Has(p, "isz") => FnEq(isz', p.isz, Intervals)
  /\ Has(p, "off") => FnEq(off', p.off, Blocks)
  /\ Has(p, "bsz") => FnEq(bsz', p.bsz, Blocks)
  /\ Has(p, "bytes") => FnEq(bytes', p.bytes, Intervals)
  /\ Has(p, "sname") => FnEq(sname', p.sname, Symbols)
  /\ Has(p, "pay") => FnEq(pay', p.pay, Symbols)
  /\ Has(p, "entry") => FnEq(entry', p.entry, Modules)
  /\ Has(p, "symx") => SetFnEq(symx', p.symx, Intervals)
  /\ Has(p, "cfg") => SetFnEq(cfg', p.cfg, IRs)
  /\ Has(p, "tags") => SetFnEq(tags', p.tags, TagHolders)
  /\ Has(p, "scal") => \A h \in ScalHolders : \A f \in FieldsOf(h) : scal'[h][f] = p.scal[h][f]

TInit == Init /\ tid \in 1..Len(Traces) /\ l = 1
TNext == /\ l <= Len(Steps)
         /\ Next
         /\ ArgsMatch(op', Cur.op) /\ PrintT(<<"ARGS", tid, l>>)
         /\ ResMatch(op', Cur.op) /\ PrintT(<<"RES", tid, l>>)
         /\ PostOK(Cur.post) /\ PrintT(<<"OK", tid, l>>)
         /\ l' = l + 1 /\ UNCHANGED tid
TSpec == TInit /\ [][TNext]_tvars
Done == TLCGet("stats").generated >= 0 /\ PrintT(<<"TRACES", Len(Traces)>>)
=============================================================================
