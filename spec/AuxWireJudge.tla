---------------------------- MODULE AuxWireJudge ----------------------------
(***************************************************************************)
(* Binding of AuxWire.tla to the codecs (C07, C08).  Records are           *)
(*   [t |-> type tree, v |-> value,                                         *)
(*    enc |-> <<[who, bytes]>>,   bytes some implementation produced for v  *)
(*    dec |-> <<[who, v]>>]       values some implementation decoded        *)
(* mode "enc": TLC prints Enc(t, v) for every record (the specification as *)
(* an independent writer) and checks the spec-level theorem                *)
(* Dec(t, Enc(t, v)) = v with full consumption.                            *)
(* mode "judge": every produced byte string must decode (by the spec's     *)
(* Dec) completely to v and re-encode to itself; every decoded value must  *)
(* equal v (sets and mappings compared without order).                     *)
(***************************************************************************)
EXTENDS AuxWire, Json, IOUtils, TLCExt
Recs == ndJsonDeserialize(IOEnv.JUDGE_FILE)
Mode == IOEnv.JUDGE_MODE
VARIABLE idx
JInit == idx \in 1..Len(Recs)
JNext == FALSE /\ UNCHANGED idx
JSpec == JInit /\ [][JNext]_idx

RoundTrip(t, v) == LET b == Enc(t, v)  d == Dec(t, b, 1)
                   IN d.ok /\ d.p = Len(b) + 1 /\ Canon(t, d.v) = Canon(t, v) /\ Enc(t, d.v) = b
BytesOk(t, v, b) == LET d == Dec(t, b, 1)
                    IN d.ok /\ d.p = Len(b) + 1 /\ Canon(t, d.v) = Canon(t, v) /\ Enc(t, d.v) = b
                       /\ Len(b) = Len(Enc(t, v))
ValueOk(t, v, w) == WellFormed(t, w) /\ Canon(t, w) = Canon(t, v)

Judge ==
  LET r == Recs[idx] IN
  IF Mode = "enc"
  THEN /\ PrintT(ToJson([i |-> idx, bytes |-> Enc(r.t, r.v)]))
       /\ (RoundTrip(r.t, r.v) \/ PrintT(ToJson([bad |-> idx, what |-> "spec-roundtrip"])))
  ELSE /\ \A k \in 1..Len(r.enc) :
            BytesOk(r.t, r.v, r.enc[k].bytes)
            \/ PrintT(ToJson([bad |-> idx, what |-> "bytes", who |-> r.enc[k].who, expected |-> Enc(r.t, r.v)]))
       /\ \A k \in 1..Len(r.dec) :
            ValueOk(r.t, r.v, r.dec[k].v)
            \/ PrintT(ToJson([bad |-> idx, what |-> "value", who |-> r.dec[k].who]))
Done == TLCGet("stats").generated >= 0 /\ PrintT(ToJson([judged |-> Len(Recs)]))
=============================================================================
