----------------------------- MODULE LazyIndex -----------------------------
(***************************************************************************)
(* gtirb.lazyintervaltree.LazyIntervalTree, with its contents: one lazily  *)
(* maintained index over a collection of values whose keys (offset/size or *)
(* address/size, possibly absent) change under it.  The owners call        *)
(* add/discard around every membership or key change; get() builds the     *)
(* tree the first time, rebuilds it when at least as many events are       *)
(* pending as there are values, and otherwise replays the events.          *)
(* C12 at design level: whatever the schedule of get() calls, the tree a   *)
(* get() returns equals a fresh scan of the collection (LazyInv).          *)
(***************************************************************************)
EXTENDS Naturals, Sequences, FiniteSets, TLC, Json
CONSTANTS Vals, Offs, Sizes, MaxEv,
          Members0,   \* initial members of the collection
          GetWeight   \* how many times get() is offered to the random simulator
VARIABLES member,  \* the owning collection
          has,     \* does the value currently have a key (interval address not None)
          off, sz, \* the key
          tree,    \* materialised set of <<lo, hi, value>>
          built,   \* _interval_index is not None
          ev,      \* pending events: <<"A" | "D", interval>>
          op
vars == <<member, has, off, sz, tree, built, ev, op>>
view == <<member, has, off, sz, tree, built, ev>>

Iv(v) == <<off[v], off[v] + sz[v] + 1, v>>
Fresh == {Iv(v) : v \in {w \in member : has[w]}}
RECURSIVE Apply(_, _)
Apply(t, es) == IF es = <<>> THEN t
                ELSE LET e == Head(es) IN
                     Apply(IF e[1] = "A" THEN t \cup {e[2]} ELSE t \ {e[2]}, Tail(es))
Branch == IF ~built THEN "build" ELSE IF Cardinality(member) <= Len(ev) THEN "rebuild" ELSE "replay"
Materialise == IF Branch = "replay" THEN Apply(tree, ev) ELSE Fresh

Init == /\ member = Members0 /\ has = [v \in Vals |-> TRUE] /\ off = [v \in Vals |-> 0] /\ sz = [v \in Vals |-> 0]
        /\ tree = {} /\ built = FALSE /\ ev = <<>> /\ op = [name |-> "init"]

EvIf(c, e) == IF c THEN <<e>> ELSE <<>>
\* owner.add(v): _index_add then insert        (events only for values that have a key)
Add(v) == /\ v \notin member /\ member' = member \cup {v}
          /\ ev' = ev \o EvIf(has[v], <<"A", Iv(v)>>)
          /\ op' = [name |-> "add", v |-> v, res |-> "none"]
          /\ UNCHANGED <<has, off, sz, tree, built>>
Discard(v) == /\ v \in member /\ member' = member \ {v}
              /\ ev' = ev \o EvIf(has[v], <<"D", Iv(v)>>)
              /\ op' = [name |-> "discard", v |-> v, res |-> "none"]
              /\ UNCHANGED <<has, off, sz, tree, built>>
\* the notify-parent descriptor: discard with the old key, set, add with the new key
SetKey(v, h, o, s) ==
  /\ has' = [has EXCEPT ![v] = h] /\ off' = [off EXCEPT ![v] = o] /\ sz' = [sz EXCEPT ![v] = s]
  /\ ev' = IF v \in member
           THEN ev \o EvIf(has[v], <<"D", Iv(v)>>) \o EvIf(h, <<"A", <<o, o + s + 1, v>>>>)
           ELSE ev
  /\ op' = [name |-> "setkey", v |-> v, h |-> h, o |-> o, s |-> s, res |-> "none"]
  /\ UNCHANGED <<member, tree, built>>
Get == /\ tree' = Materialise /\ built' = TRUE /\ ev' = <<>>
       /\ op' = [name |-> "get", branch |-> Branch, res |-> Materialise]
       /\ UNCHANGED <<member, has, off, sz>>
Next == \/ \E v \in Vals : Add(v) \/ Discard(v)
        \/ \E v \in Vals, h \in BOOLEAN, o \in Offs, s \in Sizes : SetKey(v, h, o, s)
        \/ \E w \in 1..GetWeight : Get
Spec == Init /\ [][Next]_vars
Bound == Len(ev) <= MaxEv

\* what the next get() would return is always the fresh scan
LazyInv == Materialise = Fresh
\* right after a get() the stored tree is the fresh scan
GetIsFresh == (built /\ ev = <<>>) => tree = Fresh
Emit == PrintT(ToJson([pre |-> [member |-> member, has |-> has, off |-> off, sz |-> sz, tree |-> tree,
                                built |-> built, ev |-> ev],
                       op |-> op',
                       post |-> [member |-> member', has |-> has', off |-> off', sz |-> sz', tree |-> tree',
                                 built |-> built', ev |-> ev'],
                       lvl |-> TLCGet("level")]))
=============================================================================
