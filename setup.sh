#!/bin/sh
# Offline setup: verify the tools the checks need, then pre-compute the spec-only artefacts (the
# transition graphs / behaviours TLC derives from the TLA+ specifications alone) into .cache/.
set -e
cd "$(dirname "$0")"
command -v java >/dev/null || { echo "java missing"; exit 1; }
test -f /opt/veriftools/tla/tla2tools.jar || { echo "tla2tools.jar missing"; exit 1; }
/venv/bin/python -c "import google.protobuf, intervaltree, sortedcontainers, networkx"
chmod +x check tools/*.sh tools/*.py harness/java/build.sh 2>/dev/null || true
export PYTHONHASHSEED=0
/venv/bin/python -m harness.selftest
if [ -z "$VERIF_NO_WARM" ]; then
  # one representative per family of configurations; the others of the family share its graphs
  for p in C16 C05 C12 C10 C11 C13 C19 C09 C18; do
    VERIF_WARM=1 VERIF_EVID=/tmp/gtirbverif-warm-evid ./check $p --tier quick >/dev/null 2>&1 &
  done
  wait
  rm -rf /tmp/gtirbverif-warm-evid
fi
echo "setup done"
