#!/bin/sh
# Offline setup: verify the tools the checks need and warm the spec-only graph cache.
set -e
cd "$(dirname "$0")"
command -v java >/dev/null || { echo "java missing"; exit 1; }
test -f /opt/veriftools/tla/tla2tools.jar || { echo "tla2tools.jar missing"; exit 1; }
/venv/bin/python -c "import google.protobuf, intervaltree, sortedcontainers, networkx" 
chmod +x check tools/*.sh tools/*.py 2>/dev/null || true
PYTHONHASHSEED=0 /venv/bin/python -m harness.selftest
