"""code -> spec: record lookups answered by the real objects, let TLC judge them
against the fresh-scan operators of Gtirb.tla (spec/GtirbJudge.tla)."""
import json
import os
import random

from . import configs, tlc
from .build import MachineryFailure, workdir
from .universe import NOADDR, Unprojectable

ABS_KEYS = ["mods", "kids", "par", "addr", "isz", "off", "bsz", "symx"]

ADDR_METHODS = ["byte_blocks_on", "byte_blocks_at", "code_blocks_on", "code_blocks_at", "data_blocks_on",
                "data_blocks_at"]
OFF_METHODS = [m + "_offset" for m in ADDR_METHODS]
# A queried range that ends at this abstract coordinate stands (with BASE = 0) for one that ends at 2^64:
# "everything from lo on".  Every abstract coordinate is far below it, so membership and overlap are the same
# for range(lo, HUGE, st) -- what TLC judges -- and range(lo, 2**64, st) -- what the real objects are asked.
HUGE = 64


def _small(v):
    """TLC reads JSON numbers as 32-bit integers: an answer far outside the abstract coordinates (a wrapped or
    otherwise wild address) is replaced by a marker that no specification value equals, instead of being left to
    overflow into something that might"""
    return v if -1000 < v < 1000000 else -777


class Recorder:
    """Issues seeded batches of lookups on the real objects and writes ndjson records."""

    def __init__(self, consts, seed=0, per_step=10, max_coord=None, path=None, families=None, always_blocks=False):
        self.c = consts
        self.always_blocks = always_blocks
        self.rng = random.Random(seed)
        self.per_step = per_step
        self.path = path or os.path.join(workdir("gtirbverif-judge-"), "lookups.ndjson")
        self.fh = open(self.path, "w")
        self.n_records = 0
        self.n_queries = 0
        self.nonempty = 0
        self.by_method = {}
        self.samples = []
        hi = 0
        for a in consts["Addrs"] or {0}:
            for z in consts["ISizes"] | {0}:
                hi = max(hi, a + z)
            for o in consts["Offs"] | {0}:
                for z in consts["BSizes"] | {0}:
                    hi = max(hi, a + o + z)
        self.hi = max_coord if max_coord is not None else hi + 2
        if self.hi + 8 >= HUGE:
            raise MachineryFailure("abstract coordinates reach the whole-address-space sentinel")
        self.keys = [k for k in ABS_KEYS] + (["sname", "pay"] if consts["Symbols"] else [])
        self.seen_states = set()
        self.hists = []    # operation + query history behind every record (for replays)
        self.raised = []   # lookups that raised instead of answering

    def _anchors(self, env, x, offset_based):
        """coordinates worth querying around (choice of queries only; never part of a verdict)"""
        out = set()
        for v in self.c["Intervals"]:
            o = env.obj[v]
            if offset_based:
                if v != x:
                    continue
                base = 0
            else:
                if o.address is None:
                    continue
                base = o.address - env.base
                out |= {base, base + o.size}
            for b in o.blocks:
                out |= {base + b.offset, base + b.offset + b.size}
            for k in o.symbolic_expressions:
                out.add(base + k)
        return sorted(out)

    def _query(self, env=None, x=None, offset_based=False):
        r = self.rng
        anchors = self._anchors(env, x, offset_based) if env is not None else []
        if env is not None and env.base == 0 and r.random() < 0.06:
            # whole-address-space queries: range(lo, 2**64, step) has 2^63 members and more
            return [r.choice([-1, 0, 0, 1, r.randint(0, self.hi)]), HUGE, r.choice([1, 1, 2, 3])], False
        if anchors and r.random() < 0.75:
            lo = r.choice(anchors) + r.choice([-1, 0, 0, 1])
        else:
            lo = r.randint(-1, self.hi)
        kind = r.random()
        if kind < 0.3:
            return [lo, lo + 1, 1], True
        st = r.choice([1, 1, 1, 2, 2, 3])
        if anchors and r.random() < 0.5:
            hi = r.choice(anchors) + r.choice([-1, 0, 1, 2])
        else:
            hi = r.randint(lo - 1, self.hi + 1)
        if r.random() < 0.15:
            lo -= r.choice([1, 2])   # start before everything, so that the step phase matters
        return [lo, hi, st], False

    def _scopes(self, env):
        out = []
        for k, names in (("ir", "IRs"), ("mod", "Modules"), ("sec", "Sections"), ("biv", "Intervals")):
            out += [(n, k) for n in sorted(self.c[names])]
        return out

    def _candidates(self, env):
        cands = []
        for x, k in self._scopes(env):
            for m in ADDR_METHODS:
                cands.append((m, x))
            cands.append(("symbolic_expressions_at", x))
            if k != "biv":
                cands += [("byte_intervals_on", x), ("byte_intervals_at", x)]
            if k in ("ir", "mod"):
                cands += [("sections_on", x), ("sections_at", x)]
            if k == "biv":
                cands += [(m, x) for m in OFF_METHODS] + [("symbolic_expressions_at_offset", x)]
            if k == "sec":
                cands += [("section_address", x), ("section_size", x)]
        for b in sorted(self.c["CodeBlocks"] | self.c["DataBlocks"]):
            cands += [("block_address", b), ("contains_offset", b), ("contains_address", b)]
        if not self.c["Addrs"] and not self.c["Queries"]:
            cands = []          # a universe without geometry: only the lookups by name and by referent below
        if self.c["Symbols"]:
            cands += [("symbols_named", m) for m in sorted(self.c["Modules"])]
            cands += [("references", b) for b in sorted(self.c["CodeBlocks"] | self.c["DataBlocks"] | self.c["Proxies"])]
        return cands

    def ask(self, env, f, x, q, point):
        """one lookup through the public API -> answer in spec vocabulary"""
        if hasattr(env, "history"):
            env.history.append({"name": "query", "f": f, "x": x, "q": list(q), "point": bool(point)})
        o = env.obj[x]
        if f == "references":
            return [env.nid(y) for y in o.references]
        if f == "symbols_named":      # q[0] indexes the sorted names of the universe (replays)
            return [env.nid(y) for y in o.symbols_named(env.to_name(sorted(self.c["Names"])[q[0] % len(self.c["Names"])]))]
        if f in ("section_address", "section_size"):
            v = o.address if f == "section_address" else o.size
            if v is None:
                return [NOADDR]
            return [_small(env.from_addr(v) if f == "section_address" else v)]
        if f == "block_address":
            return [_small(env.from_addr(o.address))]
        if f == "contains_offset":
            return [bool(o.contains_offset(q[0]))]
        if f == "contains_address":
            return [bool(o.contains_address(env.base + q[0]))]
        offset_based = f.endswith("_offset")
        if point:
            arg = q[0] if offset_based else env.base + q[0]
        elif q[1] == HUGE and env.base == 0:
            arg = range(q[0], 2 ** 64, q[2])
        else:
            arg = range(q[0], q[1], q[2]) if offset_based else env.to_range(q)
        res = list(getattr(o, f)(arg))
        if f.startswith("symbolic_expressions_at"):
            return [[env.nid(t[0]), t[1], env.nid(t[2])] for t in res]
        return [env.nid(n) for n in res]

    def ask_safe(self, env, f, x, q, point):
        """ask(); a lookup that raises on a legal query is kept aside as a finding of its own (None returned)"""
        try:
            return self.ask(env, f, x, q, point)
        except (Unprojectable, MachineryFailure):
            raise
        except Exception as e:   # noqa: the class is the observation
            if len(self.raised) < 200:
                self.raised.append({"f": f, "x": x, "q": list(q), "exc": type(e).__name__, "msg": str(e)[:200],
                                    "st": env.project(self.keys), "base": str(env.base),
                                    "history": list(getattr(env, "history", []))})
            return None

    def record(self, env, n_queries=None, state_key=None, must_include=()):
        cands = self._candidates(env)
        if not cands:
            return
        n = n_queries or self.per_step
        if state_key is not None and state_key not in self.seen_states:
            self.seen_states.add(state_key)
            n = max(n, 4 * self.per_step)
        qs = []
        picks = list(must_include) + [self.rng.choice(cands) for _ in range(n)]
        if self.always_blocks:      # the per-block views, for every block, at every record
            picks += [c for c in cands if c[0] in ("block_address", "contains_offset", "contains_address")]
        for f, x in picks:
            if f in ("symbols_named", "references"):
                e = {"f": f, "x": x, "q": [0, 1, 1]}
                try:
                    if f == "symbols_named":
                        k = self.rng.randrange(len(self.c["Names"]))
                        e["nm"] = sorted(self.c["Names"])[k]
                        e["q"] = [k, k + 1, 1]
                        e["ans"] = [env.nid(y) for y in env.obj[x].symbols_named(env.to_name(e["nm"]))]
                    else:
                        e["ans"] = [env.nid(y) for y in env.obj[x].references]
                    if hasattr(env, "history"):
                        env.history.append({"name": "query", "f": f, "x": x, "q": list(e["q"]), "point": True, "nm": e.get("nm")})
                    qs.append(e)
                except Unprojectable:
                    pass        # a symbol of another universe in the index: the structural checks report that
                continue
            q, point = self._query(env, x, f.endswith('_offset') or f == 'contains_offset')
            if f in ("section_address", "section_size", "block_address"):
                q, point = [0, 1, 1], True
            elif f in ("contains_offset", "contains_address"):
                q, point = [q[0], q[0] + 1, 1], True
            ans = self.ask_safe(env, f, x, q, point)
            if ans is not None:
                qs.append({"f": f, "x": x, "q": q, "ans": ans})
        self.write(env, qs)

    def write(self, env, qs):
        for e in qs:
            self.by_method[e["f"]] = self.by_method.get(e["f"], 0) + 1
            if e["ans"] and e["ans"] != [NOADDR] and e["ans"] != [False]:
                self.nonempty += 1
        st = env.project(self.keys)
        self.hists.append(list(getattr(env, "history", [])))
        rec = {"st": st, "q": qs, "base": str(env.base)}
        self.fh.write(json.dumps(rec, separators=(",", ":")) + "\n")
        self.n_records += 1
        self.n_queries += len(qs)
        if len(self.samples) < 3 and qs:
            self.samples.append(qs[0])

    def close(self):
        self.fh.close()


def run_judge(name, consts, path, *, chunks=8, timeout=3000):
    """TLC evaluates every recorded answer; returns (n_records_judged, list of failures)."""
    lines = open(path).read().splitlines()
    if not lines:
        return 0, []
    import concurrent.futures as cf
    chunks = max(1, min(chunks, len(lines) // 200 + 1))
    parts = [lines[i::chunks] for i in range(chunks)]
    index = [list(range(i, len(lines), chunks)) for i in range(chunks)]
    mod, files, cfg = configs.render(name + "_judge", consts=consts, invariants=["Judge"], view=False,
                                     extends="GtirbJudge", spec="JSpec", postcondition="Done")

    def one(pi):
        part, ixs = parts[pi], index[pi]
        wd = workdir("gtirbverif-judgein-")
        p = os.path.join(wd, "part.ndjson")
        with open(p, "w") as fh:
            fh.write("\n".join(part) + "\n")
        r = tlc.run(mod, cfg, extra_files=files, workers=2, env_extra={"JUDGE_FILE": p}, timeout=timeout, heap="2g")
        if r.errors or r.violation:
            raise MachineryFailure("judge %s: %s" % (name, (r.errors or [r.violation])[0][:1500]))
        judged = sum(x.get("judged", 0) for x in r.records)
        bad = [x for x in r.records if "bad" in x]
        for b in bad:
            b["record"] = json.loads(part[b["bad"] - 1])
            b["line"] = ixs[b["bad"] - 1]
        if judged != len(part):
            raise MachineryFailure("judge %s: %d of %d records judged" % (name, judged, len(part)))
        return judged, bad

    total, bad = 0, []
    with cf.ThreadPoolExecutor(max_workers=chunks) as ex:
        for j, b in ex.map(one, range(len(parts))):
            total += j
            bad += b
    return total, bad


FAM_METHODS = {
    "extent": ["section_address", "section_size"],
    "ion": ["byte_intervals_on", "byte_intervals_at"],
    "son": ["sections_on", "sections_at"],
    "bon": ADDR_METHODS + ["symbolic_expressions_at"],
    "off": OFF_METHODS,
}


class LazyEnv:
    """A main environment that executes the spec's Lookup actions, and a twin that receives the same
    edits and no lookups at all until the end (C12)."""

    def __init__(self, gtirb, consts, base, rec, stats):
        from .universe import Env
        self.main = Env(gtirb, consts, base=base)
        self.twin = Env(gtirb, consts, base=base)
        self.rec, self.stats, self.c = rec, stats, consts
        try:
            from gtirb import _veriftrace
            self.trace = _veriftrace if _veriftrace.ENABLED else None
        except Exception:
            self.trace = None

    def project(self, keys):
        return self.main.project(keys)

    def step(self, op):
        if op["name"] != "lookup":
            r = self.main.step(op)
            if op["name"] == "set.pop" and isinstance(r, str) and r != "none":
                # which member pop() takes is arbitrary: the twin removes the one the main environment lost
                self.twin.step(dict(op, name="set.remove", c=r))
            else:
                self.twin.step(op)
            return r
        n0 = len(self.trace.events) if self.trace else 0
        qs = []
        for f in FAM_METHODS[op["fam"]]:
            q = list(op["q"])
            if f in ("section_address", "section_size"):
                q = [0, 1, 1]
            ans = self.rec.ask_safe(self.main, f, op["x"], q, False)
            if ans is not None:
                qs.append({"f": f, "x": op["x"], "q": q, "ans": ans})
        self.rec.write(self.main, qs)
        if self.trace:
            got = sorted(e["branch"] for e in self.trace.events[n0:] if e.get("kind") == "lazy.get")
            for b in got:
                self.stats["branch"][b] = self.stats["branch"].get(b, 0) + 1
            # the spec predicts one get() per touched index for the first method of the family
            want = sorted(op.get("branches", {}).values()) if isinstance(op.get("branches"), dict) else []
            k = "model_branch_agree" if all(w in got for w in want) else "model_branch_disagree"
            self.stats[k] += 1
        return "none"

    def _grid(self, env):
        out = []
        cands = [c for c in self.rec._candidates(env) if c[0] not in ("contains_offset", "contains_address", "block_address",
                                                                      "symbols_named", "references")]
        if len(cands) > 30:
            cands = self.gridrng.sample(cands, 30)
        for f, x in cands:
            for q in sorted(self.c["Queries"]):
                qq = [0, 1, 1] if f in ("section_address", "section_size") else list(q)
                ans = self.rec.ask_safe(env, f, x, qq, False)
                out.append((f, x, qq, sorted(map(repr, ans)) if ans is not None else ["<raised>"]))
        return out

    def finish(self, hist):
        """same edits, lookups after every Lookup action vs none until now: final answers must agree"""
        import random as _r
        seed = self.rec.rng.random()
        self.gridrng = _r.Random(seed)
        a = self._grid(self.twin)
        self.gridrng = _r.Random(seed)
        b = self._grid(self.main)
        self.stats["twin_comparisons"] += 1
        self.stats["twin_answers_compared"] += len(a)
        out = []
        for x, y in zip(a, b):
            if x != y:
                out.append({"kind": "schedule", "props": ["C12"], "op": {"name": x[0], "x": x[1], "q": x[2]},
                            "expected": {"no lookups before the end": x[3]},
                            "observed": {"lookups interleaved as the walk did": y[3]},
                            "history": hist, "signature": "schedule:%s" % x[0]})
                break
        # the twin's final answers are judged by TLC as well
        qs = [{"f": f, "x": x, "q": q, "ans": self.rec.ask_safe(self.twin, f, x, q, False)} for f, x, q, _ in a[:40]]
        self.rec.write(self.twin, [e for e in qs if e["ans"] is not None])
        # ... and so are the main environment's (what a wrong index answers after this history is C05/C06/C13's, too)
        qs = [{"f": f, "x": x, "q": q, "ans": self.rec.ask_safe(self.main, f, x, q, False)} for f, x, q, _ in b[:40]]
        self.rec.write(self.main, [e for e in qs if e["ans"] is not None])
        return out
