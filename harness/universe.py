"""Real gtirb objects for the node identities of a spec configuration.

Env.step(op) executes one spec operation through the *public* API and returns
the observed result in the spec's vocabulary; Env.project(keys) renders the
observable state in the shape Gtirb.tla prints (Field(k)).  No oracle lives
here: everything returned is compared with what TLC computed.
"""
import io
import uuid as uuidlib

NS = uuidlib.UUID("6e0f1d2c-0000-4000-8000-000000000000")
NONE = "none"
NOADDR = -1
NONEIDX = 99

SCALAR_KEYS = {"scal", "deq", "shadowed", "par", "addr", "isz", "off", "bsz", "sname", "pay", "entry", "irof", "modof", "secof",
               "baddr", "built", "nev"}
SEQ_KEYS = {"mods", "bytes", "bbytes", "secext"}
SET_KEYS = {"kids", "cache", "refs", "tags", "symx", "cfg", "nout", "nin"}
SET2_KEYS = {"agg", "named", "mnamed", "outs", "ins"}


def _sortkey(x):
    return repr(x)


def canon_field(key, val):
    """Normalise one field (from TLC's JSON or from project()) for comparison."""
    if val == []:
        val = {}
    if key in SET_KEYS:
        return {k: sorted(v, key=_sortkey) for k, v in val.items()}
    if key in SET2_KEYS:
        return {k: {k2: (None if v2 is None else sorted(v2, key=_sortkey)) for k2, v2 in ({} if v == [] else v).items()}
                for k, v in val.items()}
    return val


def canon_state(st):
    return {k: canon_field(k, v) for k, v in st.items()}


class NoBinding(Exception):
    """the specification offers an operation the harness cannot execute: a machinery failure (exit 2),
    never a verdict about the code"""


class Unprojectable(Exception):
    pass


_IO_DIR = None    # scratch directory of the file-name based save/load calls
PENDING_IR = []   # (op, record) of IRs accepted from faulty files, judged by TLC at the end of a stage
SCHEMA = None   # protomsg.Schema, set by the CLI after the package is built

STR = {"s0": "", "s1": "a", "s2": "é中\U0001f600<>,\x00z"}
U64 = {"0": 0, "1": 1, "MAX64": 2 ** 64 - 1, "2^63": 2 ** 63}
I64 = {"0": 0, "1": 1, "-1": -1, "MIN64": -2 ** 63, "MAX63": 2 ** 63 - 1}


def _first_diff(a, b, path=""):
    """where two canonical records differ first (diagnostics)"""
    if type(a) != type(b):
        return {"at": path, "expected": a, "observed": b}
    if isinstance(a, dict):
        for k in sorted(set(a) | set(b)):
            if a.get(k) != b.get(k):
                return _first_diff(a.get(k), b.get(k), path + "." + k)
    elif isinstance(a, list):
        if len(a) != len(b):
            return {"at": path, "expected_len": len(a), "observed_len": len(b), "expected": a[:3], "observed": b[:3]}
        for i, (x, y) in enumerate(zip(a, b)):
            if x != y:
                return _first_diff(x, y, "%s[%d]" % (path, i))
    return {"at": path, "expected": a, "observed": b}


class Env:
    def __init__(self, gtirb, consts, base=0, seed=0):
        self.g = gtirb
        self.c = consts
        self.base = base
        self.obj = {}
        self.ids = {}
        self.keep = []  # keeps replaced objects alive so id() values stay unique
        g = gtirb
        self.kind = {}
        for k, cls in (("IRs", "ir"), ("Modules", "mod"), ("Sections", "sec"), ("Intervals", "biv"),
                       ("CodeBlocks", "code"), ("DataBlocks", "data"), ("Proxies", "prx"),
                       ("Symbols", "sym")):
            for n in consts[k]:
                self.kind[n] = cls
        self.defname = consts.get("Name0", "a")
        # "Separately constructed nodes never share flags, AuxData maps, attributes or collections" (C04) -- also when
        # the caller hands every constructor the same (empty) mutable argument: one template object per kind.
        self.tmpl = {"aux": {}, "flags": set(), "attrs": set(), "bytes": bytearray()}
        for n in sorted(self.kind):
            self._set(n, self._construct(n))
        self.hidden_sym = g.Symbol(name="hidden", uuid=uuidlib.uuid5(NS, "hidden-symbol"))
        for e in sorted(consts["Exprs"]):
            self._set(e, self._new_expr(e))
            self.kind[e] = "expr"
        self.shadow = {}
        self.frozen = {}
        self.history = []
        self.pending_ir = PENDING_IR
        EL, ET = g.Edge.Label, g.Edge.Type
        self.label_alias = {"f": "L000", "L1": "L111", "L2": "L501", "L3": "L010"}
        self.label_of = {"nolabel": None}
        self.token_of_label = {None: "nolabel"}
        for tok in sorted(consts.get("Labels", ())):
            if tok != "nolabel":
                t, c, d = self.label_fields(tok)
                lab = EL(ET(t), bool(c), bool(d))
                self.label_of[tok] = lab
                self.token_of_label[lab] = tok
        for v, a, z in sorted(consts.get("Geom0", ())):
            self.obj[v].address = self.to_addr(a)
            self.obj[v].size = z
        for a in consts.get("Attach0", []):
            c, p = a
            if self.kind[c] == "mod":
                self.obj[p].modules.append(self.obj[c])
            else:
                self._coll(p, self._rel(c)).add(self.obj[c])
        for y, pv in sorted(consts.get("Pay0", ())):
            if pv.startswith("#"):
                self.obj[y].value = int(pv[1:])
            else:
                self.obj[y].referent = self.obj[pv]
        for v, k, e in sorted(consts.get("Symx0", ())):
            self.obj[v].symbolic_expressions[k] = self.obj[e]
        for i, e in sorted(consts.get("Cfg0", ())):
            self.obj[i].cfg.add(self.to_edge(e))
        for m, c in sorted(consts.get("Entry0", ())):
            self.obj[m].entry_point = self.obj[c]
        if any(f[0] == "writemsg" for f in consts.get("Families", ())):
            for i in self._by("ir"):      # a first save, so that every later one is a repeated save of the same objects
                self.save_bytes(i)

    # ---- identities -----------------------------------------------------
    def uuid(self, n):
        """every node has a fixed UUID; one node of the universe carries the nil UUID and one the all-ones UUID
        (any 16 bytes are a legal UUID for a node, in memory and in a file)"""
        if self._boundary is None:
            self._boundary = {}
            for val, cands in ((uuidlib.UUID(int=0), ("d1", "y1", "s1")), (uuidlib.UUID(int=(1 << 128) - 1), ("p1", "c1", "m1"))):
                for c in cands:
                    if c in self.kind and c not in self._boundary:
                        self._boundary[c] = val
                        break
        return self._boundary[n] if n in self._boundary else uuidlib.uuid5(NS, n)

    def _set(self, n, o):
        old = self.obj.get(n)
        if old is not None:
            self.keep.append(old)
        self.obj[n] = o
        self.ids[id(o)] = n

    def _new_expr(self, e):
        def sym(table):
            s = self.c.get(table, {}).get(e, NONE)
            return self.obj[s] if s != NONE else self.hidden_sym
        if self.c.get("ExprKind", {}).get(e, "ac") == "aa":
            return self.g.SymAddrAddr(1, 0, sym("ExprSym"), sym("ExprSym2"), self.tmpl["attrs"])
        return self.g.SymAddrConst(0, sym("ExprSym"), self.tmpl["attrs"])

    # ---- tokens <-> concrete attribute values -------------------------------------------------
    def label_fields(self, tok):
        """'L<type index><conditional><direct>' -> (enum number, cond, direct)"""
        tok = self.label_alias.get(tok, tok)
        k = int(tok[1:-2])
        num = SCHEMA.enums["EdgeType"][k][1] if SCHEMA else k
        return num, int(tok[-2]), int(tok[-1])

    def label_token(self, number, cond, direct):
        for tok, lab in self.label_of.items():
            if lab is not None and lab.type.value == number and lab.conditional == bool(cond) and lab.direct == bool(direct):
                return tok
        return "L?%d%d%d" % (number, cond, direct)

    def flag_number(self, t):
        return SCHEMA.enums["SectionFlag"][t][1]

    def flag_token(self, number):
        for k, (_, n) in enumerate(SCHEMA.enums["SectionFlag"]):
            if n == number:
                return k
        return "FLAG?%d" % number

    def attr_number(self, t):
        vals = SCHEMA.enums["SymAttribute"]
        if t >= len(vals) or t % 5 == 4:
            return 7000 + t            # a number the schema does not name: kept as an int by the API
        return vals[t][1]

    def attr_token(self, number):
        if number >= 7000:
            return number - 7000
        for k, (_, n) in enumerate(SCHEMA.enums["SymAttribute"]):
            if n == number:
                return k
        return "ATTR?%d" % number

    def to_str(self, tok):
        return STR[tok]

    def str_token(self, v):
        return {w: k for k, w in STR.items()}.get(v, "STR?%r" % (v,))

    def to_u64(self, tok):
        return U64[tok]

    def u64_token(self, v):
        return {w: k for k, w in U64.items()}.get(v, "U64?%r" % (v,))

    def to_i64(self, tok):
        return I64[tok]

    def i64_token(self, v):
        return {w: k for k, w in I64.items()}.get(v, "I64?%r" % (v,))

    def _construct(self, n, **kw):
        g, k, u = self.g, self.kind[n], self.uuid(n)
        t = self.tmpl
        if any(len(x) for x in t.values()):
            raise Unprojectable("an argument shared between constructors was modified: %r" % (t,))
        if k == "ir":
            return g.IR(uuid=u, aux_data=t["aux"], **kw)
        if k == "mod":
            return g.Module(name="", uuid=u, aux_data=t["aux"], **kw)
        if k == "sec":
            return g.Section(uuid=u, flags=t["flags"], **kw)
        if k == "biv":
            return g.ByteInterval(uuid=u, contents=t["bytes"], **kw)
        if k == "code":
            return g.CodeBlock(uuid=u, **kw)
        if k == "data":
            return g.DataBlock(uuid=u, **kw)
        if k == "prx":
            return g.ProxyBlock(uuid=u, **kw)
        if k == "sym":
            return g.Symbol(name=self.to_name(self.defname), uuid=u, **kw)
        raise KeyError(k)

    def nid(self, o):
        """node id of a Python object reached through the API ('none' for None)."""
        if o is None:
            return NONE
        n = self.ids.get(id(o))
        if n is None or self.obj[n] is not o:
            raise Unprojectable("object %r is not the universe object of any node id" % (o,))
        return n

    def _rel(self, c):
        return {"sec": "sec", "sym": "sym", "prx": "prx", "biv": "biv", "code": "blk", "data": "blk",
                "mod": "mod"}[self.kind[c]]

    def _coll(self, p, rel):
        o = self.obj[p]
        return {"sec": lambda: o.sections, "sym": lambda: o.symbols, "prx": lambda: o.proxies,
                "biv": lambda: o.byte_intervals, "blk": lambda: o.blocks}[rel]()

    def _parent_attr(self, c):
        return {"sec": "module", "sym": "module", "prx": "module", "biv": "section", "code": "byte_interval",
                "data": "byte_interval", "mod": "ir"}[self.kind[c]]

    def nodes(self, ids):
        return [self.obj[i] for i in ids]

    # ---- values ------------------------------------------------------------
    def to_addr(self, a):
        return None if a == NOADDR else self.base + a

    def from_addr(self, a):
        return NOADDR if a is None else a - self.base

    def to_pay(self, pv):
        if pv == NONE:
            return None
        if pv.startswith("#"):
            return int(pv[1:])
        return self.obj[pv]

    def from_pay(self, y):
        r, v = y.referent, y.value
        if r is not None and v is not None:
            raise Unprojectable("symbol has both referent and value")
        if r is not None:
            return self.nid(r)
        if v is not None:
            return "#%d" % v
        return NONE

    def to_name(self, nm):
        return {"EMPTY": "", "NONASCII": "é中\U0001f600"}.get(nm, nm)

    def from_name(self, s):
        return {"": "EMPTY", "é中\U0001f600": "NONASCII"}.get(s, s)

    def to_edge(self, e):
        return self.g.Edge(self.obj[e[0]], self.obj[e[1]], self.label_of[e[2]])

    def from_edge(self, e):
        if not isinstance(e, self.g.Edge):
            raise Unprojectable("not an Edge: %r" % (e,))
        return [self.nid(e.source), self.nid(e.target), self.token_of_label[e.label]]

    def to_range(self, q):
        lo, hi, st = q
        return range(self.base + lo, self.base + hi, st)

    # ---- executing one spec operation ---------------------------------------
    def step(self, op):
        """Returns the observed result (spec vocabulary) or {'exc': class name}."""
        self.history.append({k: v for k, v in op.items()
                             if k not in ("res", "alts", "branches") and (k != "msg" or op["name"] in ("readmsg", "writemsg"))})
        try:
            r = self._do(op)
        except (Unprojectable, NoBinding):
            raise
        except Exception as e:  # noqa: the class is the observation
            return {"exc": type(e).__name__, "msg": str(e)[:200]}
        return r

    def _ret(self, v):
        g = self.g
        if v is None:
            return NONE
        if isinstance(v, bool) or isinstance(v, int):
            return v
        if isinstance(v, (g.Node,)) or isinstance(v, g.SymbolicExpression):
            return self.nid(v)
        raise Unprojectable("unexpected return value %r" % (v,))

    def _plain_set(self, v, owner):
        from gtirb.util import SetWrapper
        if isinstance(v, SetWrapper) or not isinstance(v, (set, frozenset)):
            return {"notplain": type(v).__name__, "items": sorted(self.nid(x) for x in v)}
        items = sorted(self.nid(x) for x in v)
        if isinstance(v, set):
            v.clear()       # a plain value is the caller's: emptying it must not touch the collection (state compared next)
        return items

    def _slice(self, op):
        f = lambda x: None if x == NONEIDX else x  # noqa
        return slice(f(op["lo"]), f(op["hi"]), None if op["st"] == 1 else op["st"])

    def _do(self, op):
        name = op["name"]
        O = self.obj
        if name == "setparent":
            setattr(O[op["c"]], self._parent_attr(op["c"]), None if op["p"] == NONE else O[op["p"]])
            return NONE
        if name.startswith("set."):
            return self._do_set(name[4:], op)
        if name.startswith("list."):
            return self._do_list(name[5:], op)
        if name.startswith("attr."):
            return self._do_attr(name[5:], op)
        if name.startswith("symx."):
            return self._do_symx(name[5:], op)
        if name.startswith("cfg."):
            return self._do_cfg(name[4:], op)
        if name == "sym.name":
            O[op["y"]].name = self.to_name(op["nm"])
            return NONE
        if name == "sym.payload":
            pv = self.to_pay(op["pv"])
            if isinstance(pv, int) or (pv is None and self._flip()):
                O[op["y"]].value = pv
            else:
                O[op["y"]].referent = pv
            return NONE
        if name == "mod.entry":
            O[op["m"]].entry_point = None if op["c"] == NONE else O[op["c"]]
            return NONE
        if name == "scal":
            return self._do_scal(op["h"], op["f"], op["t"])
        if name in ("tag.add", "tag.del"):
            return self._do_tag(name == "tag.add", op["h"], op["t"])
        if name == "new":
            return self._do_new(op)
        if name == "reload":
            return self._do_reload(op["ir"], op)
        if name == "ctor.interval":
            bi = self.g.ByteInterval(size=op["z"], contents=bytes(op["bs"]))
            return {"size": bi.size, "bytes": list(bi.contents), "isize": bi.initialized_size}
        if name == "readmsg":
            return self._do_readmsg(op)
        if name == "writemsg":
            return self._do_writemsg(op)
        if name == "lookup":
            if self.lookup_hook is None:
                raise NoBinding("harness has no binding for op 'lookup' here")
            self.lookup_hook(self, op)
            return NONE
        if name == "loadfault":
            from . import faults
            return faults.do_loadfault(self, op, self.pending_ir)
        raise NoBinding("harness has no binding for op %r" % name)

    _flipstate = 0
    _boundary = None
    lookup_hook = None

    def _flip(self):
        self._flipstate += 1
        return self._flipstate % 2 == 0

    def _do_set(self, m, op):
        coll = self._coll(op["p"], op["r"])
        O = self.obj
        if m == "add":
            return self._ret(coll.add(O[op["c"]]))
        if m == "discard":
            return self._ret(coll.discard(O[op["c"]]))
        if m == "remove":
            return self._ret(coll.remove(O[op["c"]]))
        if m == "pop":
            return self._ret(coll.pop())
        if m == "clear":
            return self._ret(coll.clear())
        if m == "update":
            a = self.nodes(op["a"])
            a = a + a[:1]          # any iterable is accepted, also one that repeats an element
            if op["n"] == 1:
                return self._ret(coll.update(a))
            return self._ret(coll.update(a, iter(self.nodes(op["b"]))))
        A = set(self.nodes(op["a"]))
        if m in ("ior", "iand", "isub", "ixor"):
            c2 = coll
            if m == "ior":
                c2 |= A
            elif m == "iand":
                c2 &= A
            elif m == "isub":
                c2 -= A
            else:
                c2 ^= A
            if c2 is not coll:
                return {"exc": "NotSameObject"}
            return NONE
        if m in ("or", "and", "sub", "xor", "ror", "rand", "rsub", "rxor"):
            v = {"or": lambda: coll | A, "and": lambda: coll & A, "sub": lambda: coll - A,
                 "xor": lambda: coll ^ A, "ror": lambda: A | coll, "rand": lambda: A & coll,
                 "rsub": lambda: A - coll, "rxor": lambda: A ^ coll}[m]()
            return self._plain_set(v, coll)
        if m in ("eq", "ne", "le", "lt", "ge", "gt", "isdisjoint"):
            v = {"eq": lambda: coll == A, "ne": lambda: coll != A, "le": lambda: coll <= A,
                 "lt": lambda: coll < A, "ge": lambda: coll >= A, "gt": lambda: coll > A,
                 "isdisjoint": lambda: coll.isdisjoint(A)}[m]()
            if not isinstance(v, bool):
                return {"exc": "NotBool:%r" % (v,)}
            return v
        raise KeyError(m)

    def _do_list(self, m, op):
        L = self.obj[op["ir"]].modules
        O = self.obj
        if m == "insert":
            return self._ret(L.insert(op["i"], O[op["m"]]))
        if m == "append":
            return self._ret(L.append(O[op["m"]]))
        if m == "remove":
            return self._ret(L.remove(O[op["m"]]))
        if m == "setitem":
            L[op["i"]] = O[op["m"]]
            return NONE
        if m == "extend":
            return self._ret(L.extend(self.nodes(op["ms"])))
        if m == "iadd":
            L2 = L
            L2 += self.nodes(op["ms"])
            return NONE if L2 is L else {"exc": "NotSameObject"}
        if m == "setslice":
            L[self._slice(op)] = self.nodes(op["ms"])
            return NONE
        if m == "delitem":
            del L[op["i"]]
            return NONE
        if m == "pop":
            return self._ret(L.pop() if op["i"] == NONEIDX else L.pop(op["i"]))
        if m == "delslice":
            del L[self._slice(op)]
            return NONE
        if m == "clear":
            return self._ret(L.clear())
        if m == "reverse":
            return self._ret(L.reverse())
        if m == "get":
            return self._ret(L[op["i"]])
        if m == "slice":
            v = L[self._slice(op)]
            if not isinstance(v, list):
                return {"notplain": type(v).__name__}
            items = [self.nid(x) for x in v]
            v.clear()       # the slice is the caller's list
            return items
        if m == "index":
            return L.index(O[op["m"]])
        if m == "count":
            return L.count(O[op["m"]])
        if m == "contains":
            return O[op["m"]] in L
        if m == "len":
            return len(L)
        raise KeyError(m)

    def _do_attr(self, m, op):
        O = self.obj
        if m == "addr":
            O[op["v"]].address = self.to_addr(op["a"])
        elif m == "isize":
            O[op["v"]].size = op["z"]
        elif m == "off":
            O[op["b"]].offset = op["o"]
        elif m == "bsize":
            O[op["b"]].size = op["z"]
        elif m == "bytes":
            # users assign either a mutable or an immutable byte string
            O[op["v"]].contents = bytes(op["bs"]) if self._flip() else bytearray(op["bs"])
        elif m == "initsize":
            O[op["v"]].initialized_size = op["k"]
        else:
            raise KeyError(m)
        return NONE

    def _do_symx(self, m, op):
        M = self.obj[op["v"]].symbolic_expressions
        O = self.obj
        if m == "set":
            M[op["k"]] = O[op["e"]]
            return NONE
        if m == "setdefault":
            return self._ret(M.setdefault(op["k"], O[op["e"]]))
        if m == "del":
            del M[op["k"]]
            return NONE
        if m == "pop":
            return self._ret(M.pop(op["k"]))
        if m == "get":
            return self._ret(M[op["k"]])
        if m == "contains":
            return op["k"] in M
        if m == "popitem":
            k, e = M.popitem()
            return [k, self.nid(e)]
        if m == "clear":
            return self._ret(M.clear())
        if m == "len":
            return len(M)
        N = {kv[0]: O[kv[1]] for kv in op["n"]}
        if m == "update":
            return self._ret(M.update(N))
        if m == "assign":
            self.obj[op["v"]].symbolic_expressions = N
            return NONE
        raise KeyError(m)

    def _do_cfg(self, m, op):
        C = self.obj[op["ir"]].cfg
        if m in ("add", "discard", "remove", "contains"):
            e = self.to_edge(op["e"])
            if m == "add":
                return self._ret(C.add(e))
            if m == "discard":
                return self._ret(C.discard(e))
            if m == "remove":
                return self._ret(C.remove(e))
            return e in C
        if m == "pop":
            return self.from_edge(C.pop())
        if m == "clear":
            return self._ret(C.clear())
        A = {self.to_edge(e) for e in op["a"]}
        if m == "update":
            L = [self.to_edge(e) for e in op["a"]]
            if self._flip():
                return self._ret(C.update(self.g.CFG(L)))   # another CFG is an iterable of edges like any other
            return self._ret(C.update(L + L[:1]))   # an iterable that repeats an edge
        C2 = C
        if m == "ior":
            C2 |= A
        elif m == "iand":
            C2 &= A
        elif m == "isub":
            C2 -= A
        elif m == "ixor":
            C2 ^= A
        else:
            raise KeyError(m)
        return NONE if C2 is C else {"exc": "NotSameObject"}

    def _attr_value(self, t):
        n = self.attr_number(t)
        try:
            return self.g.SymbolicExpression.Attribute(n)
        except ValueError:
            return n

    def _do_tag(self, add, h, t):
        o, k = self.obj[h], self.kind[h]
        if k == "sec":
            (o.flags.add if add else o.flags.discard)(self.g.Section.Flag(self.flag_number(t)))
        elif k in ("ir", "mod"):
            if add:
                o.aux_data["k%d" % t] = self.g.AuxData(7, "uint64_t")
            else:
                o.aux_data.pop("k%d" % t, None)
        elif k == "expr":
            (o.attributes.add if add else o.attributes.discard)(self._attr_value(t))
        else:
            raise KeyError(k)
        return NONE

    ENUM_OF = {"isa": ("ISA", lambda g: g.Module.ISA), "file_format": ("FileFormat", lambda g: g.Module.FileFormat),
               "byte_order": ("ByteOrder", lambda g: g.Module.ByteOrder),
               "decode_mode": ("DecodeMode", lambda g: g.CodeBlock.DecodeMode)}

    def _do_scal(self, h, f, t):
        o = self.obj[h]
        if f in self.ENUM_OF:
            ename, cls = self.ENUM_OF[f]
            setattr(o, f, cls(self.g)(SCHEMA.number(ename, t)))
        elif f in ("name", "binary_path"):
            setattr(o, f, self.to_str(t))
        elif f == "preferred_addr":
            o.preferred_addr = self.to_u64(t)
        elif f == "rebase_delta":
            o.rebase_delta = self.to_i64(t)
        elif f == "at_end":
            o.at_end = t == "T"
        elif f == "version":
            o.version = self.to_version(t)
        elif f == "kindflip":
            # the node with this UUID becomes a block of the other class: a new object replaces the old one in its interval
            cls = self.g.CodeBlock if t == "T" else self.g.DataBlock
            if not type(o) is cls:
                new = cls(size=o.size, offset=o.offset, uuid=o.uuid)
                bi = o.byte_interval
                if bi is not None:
                    bi.blocks.discard(o)
                    bi.blocks.add(new)
                self._set(h, new)
        elif f == "xoffset":
            o.offset = self.to_i64(t)
        elif f == "xscale":
            o.scale = self.to_i64(t)
        else:
            raise KeyError(f)
        return NONE

    def _do_new(self, op):
        n, k = op["n"], self.kind[op["n"]]
        p = None if op["p"] == NONE else self.obj[op["p"]]
        if k == "ir":
            o = self._construct(n, modules=self.nodes(op["ms"]))
        elif k == "mod":
            ks = op["k"]
            o = self._construct(n, ir=p,
                                sections=[self.obj[c] for c in ks if self.kind[c] == "sec"],
                                symbols=[self.obj[c] for c in ks if self.kind[c] == "sym"],
                                proxies=[self.obj[c] for c in ks if self.kind[c] == "prx"])
        elif k == "sec":
            o = self._construct(n, module=p, byte_intervals=self.nodes(op["k"]))
        elif k == "biv":
            o = self._construct(n, section=p, blocks=self.nodes(op["k"]))
        elif k in ("code", "data"):
            o = self._construct(n, byte_interval=p)
        else:
            o = self._construct(n, module=p)
        self._set(n, o)
        return NONE

    # ---- save + load ---------------------------------------------------------
    def reach(self, ir):
        """node ids reachable from an IR object through containment (public iteration)."""
        out = [ir]
        for m in ir.modules:
            out.append(m)
            out.extend(m.proxies)
            out.extend(m.symbols)
            for s in m.sections:
                out.append(s)
                for v in s.byte_intervals:
                    out.append(v)
                    out.extend(v.blocks)
        return out

    def save_bytes(self, irid, by_path=False):
        """IR.save_protobuf_file(stream), or -- every other Reload -- IR.save_protobuf(file name)"""
        if by_path:
            import os
            from .build import workdir
            global _IO_DIR
            if _IO_DIR is None:
                _IO_DIR = workdir("gtirbverif-io-")
            self._path = os.path.join(_IO_DIR, "ir-%d.gtirb" % os.getpid())
            self.obj[irid].save_protobuf(self._path)
            with open(self._path, "rb") as fh:
                return fh.read()
        buf = io.BytesIO()
        self.obj[irid].save_protobuf_file(buf)
        return buf.getvalue()

    def load_bytes(self, data, by_path=False):
        if by_path:
            with open(self._path, "wb") as fh:
                fh.write(data)
            return self.g.IR.load_protobuf(self._path)
        return self.g.IR.load_protobuf_file(io.BytesIO(data))

    def _expr_ids(self, ir):
        out = {}
        for o in self.reach(ir):
            if isinstance(o, self.g.ByteInterval):
                for k, e in o.symbolic_expressions.items():
                    out[(self.nid(o), k)] = self.nid(e)
        return out

    def _do_writemsg(self, op):
        """the writer alone: the live IR is saved (objects stay as they are) and the bytes are compared with the
        specification's message of the current state"""
        from . import protomsg
        from gtirb.proto import IR_pb2
        from gtirb.version import PROTOBUF_VERSION
        irid = op["ir"]
        self._n_writes = getattr(self, "_n_writes", 0) + 1
        data = self.save_bytes(irid, self._n_writes % 3 == 0)
        if data[:8] != b"GTIRB\0\0" + bytes([PROTOBUF_VERSION]):
            return {"exc": "WrongHeader", "msg": data[:8].hex()}
        pm = IR_pb2.IR()
        pm.ParseFromString(data[8:])
        mapper = protomsg.Mapper(self, SCHEMA)
        got = protomsg.canon_msg(mapper.canon_from_proto(pm, self._expr_ids(self.obj[irid])))
        want = protomsg.canon_msg(op["msg"])
        if got != want:
            return {"exc": "WriterDisagreesWithSchemaMapping", "msg": _first_diff(want, got)}
        return NONE

    def _do_readmsg(self, op):
        """the reader alone: the specification's message written by an independent writer (generated classes
        only; orders shuffled, stray fields), loaded, identity of references checked, and the loaded IR's own
        re-save compared with the message field by field.  The universe's objects are not replaced."""
        import random
        from . import protomsg
        from gtirb.proto import IR_pb2
        mapper = protomsg.Mapper(self, SCHEMA)
        self._rng = getattr(self, "_rng", None) or random.Random(12345)
        im = mapper.build_proto(op["msg"], self._rng, vary=True)
        ir3 = self.g.IR.load_protobuf_file(io.BytesIO(protomsg.file_bytes(im)))   # an exception is the observation
        want = protomsg.canon_msg(op["msg"])
        if [mapper.nid(m.uuid.bytes) for m in ir3.modules] != want["module_order"]:
            return {"exc": "ReaderDisagreesWithSchemaMapping", "msg": "module order"}
        bad = protomsg.check_identity(self.g, ir3)
        if bad:
            return {"exc": "ReferenceIsACopy", "msg": bad[:3]}
        buf = io.BytesIO()
        ir3.save_protobuf_file(buf)
        pm3 = IR_pb2.IR()
        pm3.ParseFromString(buf.getvalue()[8:])
        ids3 = {}
        for m in ir3.modules:
            for v in m.byte_intervals:
                for k in v.symbolic_expressions:
                    ids3[(mapper.nid(v.uuid.bytes), k)] = "?"
        got3 = protomsg.canon_msg(mapper.canon_from_proto(pm3, ids3))
        if got3 != want:
            return {"exc": "ReaderDisagreesWithSchemaMapping", "msg": _first_diff(want, got3)}
        return NONE

    def _do_reload(self, irid, op=None):
        """save + load of a self-contained IR (C01), with the writer and the reader each compared with
        the message the specification prescribes (C02) and identity of references (C09)"""
        import random
        from . import protomsg
        from gtirb.proto import IR_pb2
        from gtirb.version import PROTOBUF_VERSION
        old_ir = self.obj[irid]
        old_exprs = self._expr_ids(old_ir)
        self._n_reloads = getattr(self, "_n_reloads", 0) + 1
        by_path = self._n_reloads % 2 == 0
        data = self.save_bytes(irid, by_path)
        want = None
        mapper = protomsg.Mapper(self, SCHEMA) if SCHEMA is not None else None
        if op is not None and "msg" in op and mapper is not None:
            # --- writer direction: the bytes are header + a message equal to the spec's, field by field
            if data[:8] != b"GTIRB\0\0" + bytes([PROTOBUF_VERSION]):
                return {"exc": "WrongHeader", "msg": data[:8].hex()}
            pm = IR_pb2.IR()
            pm.ParseFromString(data[8:])
            if pm.version != self.to_version(op["msg"]["content"].get("version", "CUR")):
                return {"exc": "WrongVersionField", "msg": pm.version}
            got = protomsg.canon_msg(mapper.canon_from_proto(pm, old_exprs))
            want = protomsg.canon_msg(op["msg"])
            if got != want:
                return {"exc": "WriterDisagreesWithSchemaMapping", "msg": _first_diff(want, got)}
        new_ir = self.load_bytes(data, by_path)
        # --- C01: deep_eq both ways (judged below, once the loaded content is known to be right)
        deq_loaded = old_ir.deep_eq(new_ir) is True and new_ir.deep_eq(old_ir) is True
        if want is None and not deq_loaded:
            return {"exc": "LoadedNotDeepEq"}
        bad = protomsg.check_identity(self.g, new_ir)
        if bad:
            return {"exc": "ReferenceIsACopy", "msg": bad[:3]}
        self.last_reload = (old_ir, new_ir, data)
        by_uuid = {self.uuid(n): n for n in self.kind if self.kind[n] != "expr"}
        for o in self.reach(new_ir):
            n = by_uuid.get(o.uuid)
            if n is None:
                raise Unprojectable("loaded node with foreign uuid %s" % o.uuid)
            self._set(n, o)
        for o in self.reach(new_ir):
            if isinstance(o, self.g.ByteInterval):
                for k, e in o.symbolic_expressions.items():
                    eid = old_exprs.get((self.nid(o), k))
                    if eid is None:
                        raise Unprojectable("loaded expression at %s+%d was not saved" % (self.nid(o), k))
                    self._set(eid, e)
        # expressions that are stored nowhere at the moment keep naming the node ids they were built with:
        # point them at the loaded symbol objects (the universe's y is the loaded y from here on)
        loaded = {o.uuid: o for o in self.reach(new_ir)}
        stored = set(self._expr_ids(new_ir).values())
        for eid in self._by("expr"):
            if eid in stored:
                continue
            e = self.obj[eid]
            for attr in ("symbol", "symbol1", "symbol2"):
                y = getattr(e, attr, None)
                if y is not None and y.uuid in loaded and loaded[y.uuid] is not y:
                    setattr(e, attr, loaded[y.uuid])
        self.shadow[irid] = old_ir
        # the pre-load IR stays alive with the same UUIDs (two loads of one file in one process): its own
        # UUID table must keep answering with its own objects whatever happens to the loaded IR
        self.frozen[irid] = [(self.uuid(n), old_ir.get_by_uuid(self.uuid(n))) for n in sorted(self.kind)
                             if self.kind[n] != "expr"]
        if want is not None:
            buf = io.BytesIO()
            new_ir.save_protobuf_file(buf)
            pm2 = IR_pb2.IR()
            pm2.ParseFromString(buf.getvalue()[8:])
            got2 = protomsg.canon_msg(mapper.canon_from_proto(pm2, self._expr_ids(new_ir)))
            if got2 != want:
                return {"exc": "ResaveDiffers", "msg": _first_diff(want, got2)}
            if not deq_loaded:
                # the loaded IR has exactly the saved content (its own re-save equals the spec's message),
                # yet deep_eq calls the two unequal: equal copies must be deep_eq (C18, C01)
                return {"exc": "EqualCopiesNotDeepEq", "msg": "original vs loaded"}
            # --- reader direction: a message built from the spec's record by an independent writer
            #     (generated classes only; orders shuffled, duplicates, arbitrary vertex list, ...)
            self._rng = getattr(self, "_rng", None) or random.Random(12345)
            im = mapper.build_proto(op["msg"], self._rng, vary=True)
            ir3 = self.g.IR.load_protobuf_file(io.BytesIO(protomsg.file_bytes(im)))
            if [m.uuid for m in ir3.modules] != [m.uuid for m in new_ir.modules]:
                return {"exc": "ReaderDisagreesWithSchemaMapping", "msg": "module order"}
            bad = protomsg.check_identity(self.g, ir3)
            if bad:
                return {"exc": "ReferenceIsACopy", "msg": bad[:3]}
            buf = io.BytesIO()
            ir3.save_protobuf_file(buf)
            pm3 = IR_pb2.IR()
            pm3.ParseFromString(buf.getvalue()[8:])
            ids3 = {}
            for m in ir3.modules:
                for v in m.byte_intervals:
                    for k in v.symbolic_expressions:
                        ids3[(mapper.nid(v.uuid.bytes), k)] = "?"
            got3 = protomsg.canon_msg(mapper.canon_from_proto(pm3, ids3))
            if got3 != want:
                return {"exc": "ReaderDisagreesWithSchemaMapping", "msg": _first_diff(want, got3)}
            if new_ir.deep_eq(ir3) is not True or ir3.deep_eq(new_ir) is not True:
                return {"exc": "EqualCopiesNotDeepEq", "msg": "loaded from gtirb's file vs loaded from an independently written file"}
            self.last_msg = (op["msg"], im)
        return NONE

    # ---- projection --------------------------------------------------------------
    def project(self, keys):
        return {k: getattr(self, "_p_" + k)() for k in keys}

    def _by(self, *kinds):
        return sorted(n for n, k in self.kind.items() if k in kinds)

    def _p_mods(self):
        out = {}
        for i in self._by("ir"):
            L = self.obj[i].modules
            ids = [self.nid(m) for m in L]
            if len(L) != len(ids) or any((self.obj[m] in L) != (m in ids) for m in self._by("mod")):
                raise Unprojectable("modules of %s: len/contains disagree with iteration" % i)
            out[i] = ids
        return out

    def _kid_colls(self, p):
        k = self.kind[p]
        o = self.obj[p]
        if k == "mod":
            return [(o.sections, "sec"), (o.symbols, "sym"), (o.proxies, "prx")]
        if k == "sec":
            return [(o.byte_intervals, "biv")]
        return [(o.blocks, "code", "data")]

    def _p_kids(self):
        out = {}
        for p in self._by("mod", "sec", "biv"):
            ids = []
            for spec in self._kid_colls(p):
                coll, kinds = spec[0], spec[1:]
                got = [self.nid(x) for x in coll]
                if len(coll) != len(got):
                    raise Unprojectable("collection of %s: len() %d but iteration yields %d" % (p, len(coll), len(got)))
                for c in self._by(*kinds):
                    if (self.obj[c] in coll) != (c in got):
                        raise Unprojectable("collection of %s: 'in' disagrees with iteration for %s" % (p, c))
                for c in got:
                    if self.kind[c] not in kinds:
                        raise Unprojectable("collection of %s holds a %s" % (p, self.kind[c]))
                ids += got
            out[p] = ids
        return out

    def _p_par(self):
        return {c: self.nid(getattr(self.obj[c], self._parent_attr(c)))
                for c in self._by("mod", "sec", "biv", "code", "data", "prx", "sym")}

    def _p_cache(self):
        for i, probes in self.frozen.items():
            sh = self.shadow.get(i)
            for u, was in probes:
                if sh is not None and sh.get_by_uuid(u) is not was:
                    raise Unprojectable("UUID table of the frozen pre-load IR of %s changed for %s (leak between IRs)" % (i, u))
        foreign = [uuidlib.uuid5(NS, "foreign-%d" % i) for i in range(2)] + [self.hidden_sym.uuid]
        out = {}
        for i in self._by("ir"):
            ir = self.obj[i]
            got = []
            for n in sorted(self.kind):
                if self.kind[n] == "expr":
                    continue
                r = ir.get_by_uuid(self.uuid(n))
                if r is None:
                    continue
                got.append(n if r is self.obj[n] else "WRONG-OBJECT-FOR:" + n)
            for u in foreign:
                if ir.get_by_uuid(u) is not None:
                    got.append("FOREIGN:" + str(u))
            out[i] = got
        return out

    def _p_irof(self):
        return {c: self.nid(self.obj[c].ir) for c in self._by("mod", "sec", "biv", "code", "data", "prx", "sym")}

    def _p_modof(self):
        return {c: self.nid(self.obj[c].module) for c in self._by("sec", "biv", "code", "data", "prx", "sym")}

    def _p_secof(self):
        return {c: self.nid(self.obj[c].section) for c in self._by("biv", "code", "data")}

    def _p_agg(self):
        names = ["sections", "symbols", "proxy_blocks", "byte_intervals", "byte_blocks", "code_blocks",
                 "data_blocks", "cfg_nodes"]
        own = {"mod": {"sections", "symbols"}, "sec": {"byte_intervals"}}
        out = {}
        for x in self._by("ir", "mod", "sec"):
            o, d = self.obj[x], {}
            for a in names:
                if a == "proxy_blocks" and self.kind[x] == "mod":
                    d[a] = [self.nid(n) for n in o.proxies]
                elif hasattr(o, a):
                    d[a] = [self.nid(n) for n in getattr(o, a)]
                else:
                    d[a] = None  # no such accessor at this scope
            out[x] = d
        return out

    def _p_addr(self):
        return {v: self.from_addr(self.obj[v].address) for v in self._by("biv")}

    def _p_isz(self):
        return {v: self.obj[v].size for v in self._by("biv")}

    def _p_off(self):
        return {b: self.obj[b].offset for b in self._by("code", "data")}

    def _p_bsz(self):
        return {b: self.obj[b].size for b in self._by("code", "data")}

    def _p_sname(self):
        return {y: self.from_name(self.obj[y].name) for y in self._by("sym")}

    def _p_pay(self):
        return {y: self.from_pay(self.obj[y]) for y in self._by("sym")}

    def _p_symx(self):
        out = {}
        for v in self._by("biv"):
            M = self.obj[v].symbolic_expressions
            items = [[k, self.nid(e)] for k, e in M.items()]
            keys = list(M)
            if keys != sorted(keys) or len(M) != len(items) or keys != [i[0] for i in items]:
                raise Unprojectable("symbolic_expressions of %s: iteration not ascending/consistent" % v)
            out[v] = items
        return out

    def _p_cfg(self):
        out = {}
        for i in self._by("ir"):
            C = self.obj[i].cfg
            es = [self.from_edge(e) for e in C]
            if len(C) != len(es):
                raise Unprojectable("cfg of %s: len() %d but iteration yields %d" % (i, len(C), len(es)))
            out[i] = es
        return out

    def _p_bytes(self):
        return {v: list(self.obj[v].contents) for v in self._by("biv")}

    def _p_tags(self):
        out = {}
        for h in self._by("ir", "mod"):
            out[h] = [int(k[1:]) if k[:1] == "k" and k[1:].isdigit() else k for k in self.obj[h].aux_data.keys()]
        for h in self._by("sec"):
            out[h] = [self.flag_token(f.value) for f in self.obj[h].flags]
        for h in self._by("expr"):
            out[h] = [self.attr_token(int(a)) for a in self.obj[h].attributes]
        return out

    def to_version(self, t):
        from gtirb.version import PROTOBUF_VERSION
        return {"CUR": PROTOBUF_VERSION, "NEXT": PROTOBUF_VERSION + 1, "ZERO": 0}[t]

    def version_token(self, v):
        from gtirb.version import PROTOBUF_VERSION
        return {PROTOBUF_VERSION: "CUR", PROTOBUF_VERSION + 1: "NEXT", 0: "ZERO"}.get(v, "V%r" % (v,))

    def _p_mnamed(self):
        return {i: {nm: [self.nid(m) for m in self.obj[i].modules_named(self.to_str(nm))]
                    for nm in sorted(self.c["ScalDom"]["name"])} for i in self._by("ir")}

    def _p_scal(self):
        out = {}
        for h in self._by("ir"):
            out[h] = {"version": self.version_token(self.obj[h].version)}
        for h in self._by("mod"):
            o = self.obj[h]
            out[h] = {"name": self.str_token(o.name), "binary_path": self.str_token(o.binary_path),
                      "isa": SCHEMA.token("ISA", o.isa.value), "file_format": SCHEMA.token("FileFormat", o.file_format.value),
                      "byte_order": SCHEMA.token("ByteOrder", o.byte_order.value),
                      "preferred_addr": self.u64_token(o.preferred_addr), "rebase_delta": self.i64_token(o.rebase_delta)}
        for h in self._by("sec"):
            out[h] = {"name": self.str_token(self.obj[h].name)}
        for h in self._by("sym"):
            out[h] = {"at_end": "T" if self.obj[h].at_end else "F"}
        for h in self._by("code"):
            out[h] = {"decode_mode": SCHEMA.token("DecodeMode", self.obj[h].decode_mode.value)}
        for h in self._by("data"):
            out[h] = {"kindflip": "T" if isinstance(self.obj[h], self.g.CodeBlock) else "F"}
        for h in self._by("expr"):
            o = self.obj[h]
            out[h] = {"xoffset": self.i64_token(o.offset)}
            if isinstance(o, self.g.SymAddrAddr):
                out[h]["xscale"] = self.i64_token(o.scale)
        return out

    def _p_deq(self):
        out = {}
        for i in self._by("ir"):
            sh = self.shadow.get(i)
            if sh is None:
                out[i] = NONE
                continue
            a, b = self.obj[i].deep_eq(sh), sh.deep_eq(self.obj[i])
            out[i] = "equal" if (a is True and b is True) else "differ" if (a is False and b is False) else \
                "ASYMMETRIC(%r,%r)" % (a, b)
        return out

    def _p_deqn(self):
        """node.deep_eq(twin) for every attached node that has a twin (same UUID) in the frozen pre-load IR"""
        out = {}
        for i in self._by("ir"):
            out[i] = {}
            sh = self.shadow.get(i)
            if sh is None:
                continue
            for n, k in self.kind.items():
                if k in ("ir", "expr"):
                    continue
                o = self.obj[n]
                if o.ir is not self.obj[i]:
                    continue
                t = sh.get_by_uuid(o.uuid)
                if t is None:
                    continue
                a, b = o.deep_eq(t), t.deep_eq(o)
                out[i][n] = "equal" if (a is True and b is True) else "differ" if (a is False and b is False) else \
                    "ASYMMETRIC(%r,%r)" % (a, b)
        return out

    def _p_shadowed(self):
        return {i: NONE for i in self._by("ir")}

    def _p_entry(self):
        return {m: self.nid(self.obj[m].entry_point) for m in self._by("mod")}

    def _p_named(self):
        return {m: {nm: [self.nid(y) for y in self.obj[m].symbols_named(self.to_name(nm))]
                    for nm in sorted(self.c["Names"])} for m in self._by("mod")}

    def _p_refs(self):
        return {b: [self.nid(y) for y in self.obj[b].references] for b in self._by("code", "data", "prx")}

    def _p_baddr(self):
        return {b: self.from_addr(self.obj[b].address) for b in self._by("code", "data")}

    def _p_bbytes(self):
        return {b: list(self.obj[b].contents) for b in self._by("code", "data")}

    def _p_secext(self):
        out = {}
        for s in self._by("sec"):
            a, z = self.obj[s].address, self.obj[s].size
            out[s] = [self.from_addr(a), NOADDR if z is None else z]
        return out

    def _edges(self, it):
        return [self.from_edge(e) for e in it]

    def _p_outs(self):
        return {i: {n: self._edges(self.obj[i].cfg.out_edges(self.obj[n])) for n in self._by("code", "prx")}
                for i in self._by("ir")}

    def _p_ins(self):
        return {i: {n: self._edges(self.obj[i].cfg.in_edges(self.obj[n])) for n in self._by("code", "prx")}
                for i in self._by("ir")}

    def _p_nout(self):
        return {n: self._edges(self.obj[n].outgoing_edges) for n in self._by("code", "prx")}

    def _p_nin(self):
        return {n: self._edges(self.obj[n].incoming_edges) for n in self._by("code", "prx")}
