"""Parser for the TLA+ values TLC prints (state dumps of -simulate file=...)."""
import re

_TOK = re.compile(r'\s*("(?:[^"\\]|\\.)*"|<<|>>|\|->|:>|@@|[\[\]{}(),]|-?\d+|TRUE|FALSE|[A-Za-z_][A-Za-z0-9_]*)')


def tokenize(s):
    pos, out = 0, []
    while pos < len(s):
        m = _TOK.match(s, pos)
        if not m:
            if s[pos:].strip() == "":
                break
            raise ValueError("cannot tokenize at %r" % s[pos:pos + 40])
        out.append(m.group(1))
        pos = m.end()
    return out


class _P:
    def __init__(self, toks):
        self.t, self.i = toks, 0

    def peek(self):
        return self.t[self.i] if self.i < len(self.t) else None

    def next(self):
        v = self.t[self.i]
        self.i += 1
        return v

    def expect(self, x):
        v = self.next()
        if v != x:
            raise ValueError("expected %r, got %r" % (x, v))

    def value(self):
        t = self.next()
        if t == "<<":
            return self.seq(">>")
        if t == "{":
            return self.seq("}")
        if t == "[":
            d = {}
            if self.peek() == "]":
                self.next()
                return d
            while True:
                k = self.next()
                self.expect("|->")
                d[k] = self.value()
                if self.next() == "]":
                    return d
        if t == "(":
            d = {}
            while True:
                k = self.value()
                self.expect(":>")
                d[str(k)] = self.value()
                n = self.next()
                if n == ")":
                    return d
                if n != "@@":
                    raise ValueError("expected @@ or ), got %r" % n)
        if t == "TRUE":
            return True
        if t == "FALSE":
            return False
        if t[0] == '"':
            return t[1:-1].replace('\\"', '"').replace("\\\\", "\\")
        if re.fullmatch(r"-?\d+", t):
            return int(t)
        return t  # model value / identifier

    def seq(self, close):
        out = []
        if self.peek() == close:
            self.next()
            return out
        while True:
            out.append(self.value())
            n = self.next()
            if n == close:
                return out
            if n != ",":
                raise ValueError("expected , or %s, got %r" % (close, n))


def parse_value(s):
    p = _P(tokenize(s))
    v = p.value()
    if p.peek() is not None:
        raise ValueError("trailing tokens after value: %r" % p.t[p.i:p.i + 5])
    return v


_STATE = re.compile(r"^STATE_(\d+) ==\s*$", re.M)


def parse_behaviour(text):
    """list of states (dict var -> value) of one behaviour file"""
    out = []
    parts = _STATE.split(text)
    # parts = [head, n1, body1, n2, body2, ...]
    for k in range(1, len(parts), 2):
        body = parts[k + 1]
        end = body.find("\n\n")
        if end >= 0:
            body = body[:end]
        st = {}
        for chunk in re.split(r"(?m)^/\\ ", body):
            chunk = chunk.strip()
            if not chunk:
                continue
            name, _, val = chunk.partition(" = ")
            st[name.strip()] = parse_value(val)
        out.append(st)
    return out
