"""spec -> code: walk the transition graph TLC printed and execute every
transition against real gtirb objects, comparing result and projected state."""
import collections
import json
import random

from .universe import Env, Unprojectable, canon_state, canon_field, NONE

# fields that identify a state but cannot be observed through the public API
UNOBSERVABLE = {"built", "nev", "shadowed"}
BASE_KEYS = {"mods", "kids", "par", "cache", "addr", "isz", "off", "bsz", "sname", "pay", "symx",
             "cfg", "bytes", "tags", "entry", "built", "nev", "scal", "shadowed"}

# which property a diverging field speaks about
FIELD_PROP = {
    "cache": "C03",
    "mods": "C04", "kids": "C04", "par": "C04", "irof": "C04", "modof": "C04", "secof": "C04", "agg": "C04",
    "tags": "C04",
    "named": "C10", "mnamed": "C04", "refs": "C10", "sname": "C10", "pay": "C10",
    "cfg": "C11", "outs": "C11", "ins": "C11", "nout": "C11", "nin": "C11",
    "symx": "C16",
    "bytes": "C19", "bbytes": "C19", "baddr": "C19", "isz": "C19",
    "addr": "C06", "off": "C05", "bsz": "C05", "secext": "C06", "entry": "C04", "scal": "C01", "deq": "C18", "deqn": "C18",
}


def op_prop(name):
    if name.startswith(("set.", "list.", "symx.")):
        return "C16"
    if name.startswith("cfg."):
        return "C11"
    if name == "reload":
        return "C01"
    if name == "scal":
        return "C02"
    if name.startswith("sym."):
        return "C10"
    if name.startswith("attr.b") or name.startswith("attr.init") or name == "attr.isize" or name == "ctor.interval":
        return "C19"
    return "C04"


RELOAD_PROPS = {"WrongHeader": {"C02", "C01"}, "WrongVersionField": {"C02", "C01"},
                "WriterDisagreesWithSchemaMapping": {"C02", "C01"}, "ReaderDisagreesWithSchemaMapping": {"C02"},
                "ReferenceIsACopy": {"C09", "C01"}, "LoadedNotDeepEq": {"C01", "C18"}, "ResaveDiffers": {"C01"},
                "EqualCopiesNotDeepEq": {"C18", "C01"}}


def result_props(op, obs):
    """which properties a wrong result of this operation speaks about"""
    if op["name"] == "reload":
        exc = obs.get("exc") if isinstance(obs, dict) else None
        # any other exception: a file written by save from a self-contained IR was not accepted
        props = set(RELOAD_PROPS.get(exc, {"C01", "C17"}))
        m = obs.get("msg") if isinstance(obs, dict) else None
        where = m.get("at", "") if isinstance(m, dict) else ""
        if exc in ("ResaveDiffers", "ReaderDisagreesWithSchemaMapping") and where.rsplit(".", 1)[-1] in (
                "payload", "value", "entry", "sym1", "sym2", "src", "tgt"):
            props.add("C09")      # a reference of the saved IR did not come back as the object it named
        return props
    if op["name"] == "writemsg":
        return {"C02"}
    if op["name"] == "readmsg":
        exc = obs.get("exc") if isinstance(obs, dict) else None
        return {"C02", "C09"} if exc == "ReferenceIsACopy" else {"C02"}
    if op["name"] == "loadfault":
        return {"C09", "C17"} if op.get("fault") in ("dangling", "ill-typed", "dup-uuid") else {"C17"}
    return {op_prop(op["name"])}


def skey(st):
    return json.dumps(st, sort_keys=True, separators=(",", ":"))


class Graph:
    def __init__(self, records, base_keys=BASE_KEYS):
        self.ids = {}
        self.out = []  # state id -> list of [op, post_id, visited]
        self.full = {}  # state id -> canonical expected full state
        self.init = None
        for r in records:
            pre = self._id(skey(canon_state(r["pre"])))
            post_full = canon_state(r["post"])
            post = self._id(skey({k: v for k, v in post_full.items() if base_keys is None or k in base_keys}))
            if self.init is None:
                self.init = pre
            self.full.setdefault(post, post_full)
            self.out[pre].append([r["op"], post, False])
        self.n_edges = sum(len(o) for o in self.out)

    def _id(self, k):
        i = self.ids.get(k)
        if i is None:
            i = len(self.out)
            self.ids[k] = i
            self.out.append([])
        return i


def args_of(op):
    return {k: v for k, v in op.items() if k not in ("res", "alts", "branches")}   # (msg and fwd stay: replays need them)


def norm_res(op, res):
    """normalise an expected (TLC) or observed (Python) result for comparison"""
    if isinstance(res, dict) and "exc" in res:
        return {"exc": res["exc"]}
    name = op["name"]
    if isinstance(res, list) and name.startswith("set."):
        return sorted(res)
    return res


def diff_states(exp, obs):
    """list of (field, key, expected, observed) for fields that differ"""
    out = []
    for k, e in exp.items():
        if k in UNOBSERVABLE:
            continue
        o = canon_field(k, obs[k])
        if k == "deqn":
            for i, d in e.items():
                for n, want in ({} if d == [] else d).items():
                    got = (o.get(i) or {}).get(n)
                    if want != "unknown" and got != want:
                        out.append((k, "%s.%s" % (i, n), want, got))
            continue
        if k == "agg":
            for x, d in e.items():
                for a, s in d.items():
                    ov = o[x][a]
                    if ov is not None and ov != s:
                        out.append((k, "%s.%s" % (x, a), s, ov))
            continue
        if o != e:
            if isinstance(e, dict):
                for kk in e:
                    if k == "deq" and e[kk] == "unknown":
                        continue
                    if o.get(kk) != e[kk]:
                        out.append((k, kk, e[kk], o.get(kk)))
            else:
                out.append((k, "", e, o))
    return out


class Violation:
    def __init__(self, kind, props, op, expected, observed, history, detail=""):
        self.kind = kind
        self.props = set(props)
        self.op = op
        self.expected = expected
        self.observed = observed
        self.history = history
        self.detail = detail

    def signature(self):
        op = self.op
        bits = [op["name"]]
        if "r" in op:
            bits.append(op["r"])
        if op["name"] == "readmsg":     # forward references are a finding of their own (known_findings.json)
            bits.append(op.get("fwd", "-"))
            if self.kind == "result" and isinstance(self.observed, dict):
                bits.append(str(self.observed.get("exc")))
        return "%s:%s" % (self.kind, "/".join(bits))

    def to_json(self):
        return {"kind": self.kind, "props": sorted(self.props), "op": self.op, "expected": self.expected,
                "observed": self.observed, "history": self.history, "detail": self.detail,
                "signature": self.signature()}


class Walker:
    """Executes every edge of a Graph at least once (covering walk with restarts)."""

    def __init__(self, graph, make_env, keys, *, seed=0, max_run=400, on_step=None, max_violations=400,
                 on_run_end=None, observable=None):
        self.g = graph
        self.make_env = make_env
        self.keys = [k for k in keys]
        self.rng = random.Random(seed)
        self.max_run = max_run
        self.on_step = on_step
        self.on_run_end = on_run_end
        self.observable = observable
        self.extra = []  # violations (dicts) reported by on_run_end
        self.violations = []
        self.max_violations = max_violations
        self.steps = 0
        self.runs = 0
        self.ops_count = collections.Counter()
        self.nondet_skips = 0
        self.samples = []
        self.remaining = graph.n_edges
        self.unvisited = [sum(1 for e in o if not e[2]) for o in graph.out]

    def _mark(self, s, e):
        if not e[2]:
            e[2] = True
            self.remaining -= 1
            self.unvisited[s] -= 1

    def _path_to_unvisited(self, s):
        """BFS over deterministic edges to the nearest state with an unvisited edge."""
        if self.unvisited[s] > 0:
            return []
        prev = {s: None}
        q = collections.deque([s])
        while q:
            u = q.popleft()
            for e in self.g.out[u]:
                v = e[1]
                if v in prev or "alts" in e[0]:
                    continue
                prev[v] = (u, e)
                if self.unvisited[v] > 0:
                    path = []
                    while prev[v] is not None:
                        u2, e2 = prev[v]
                        path.append((u2, e2))
                        v = u2
                    return path[::-1]
                q.append(v)
        return None

    def run(self):
        g = self.g
        while self.remaining > 0 and len(self.violations) < self.max_violations:
            env = self.make_env()
            self.runs += 1
            cur = g.init
            history = []
            n = 0
            plan = []
            nxt = cur
            while n < self.max_run:
                if not plan:
                    cand = [e for e in g.out[cur] if not e[2]]
                    if cand:
                        plan = [(cur, self.rng.choice(cand))]
                    else:
                        p = self._path_to_unvisited(cur)
                        if not p:
                            break
                        plan = p
                s, e = plan.pop(0)
                assert s == cur
                nxt = self._exec(env, cur, e, history)
                n += 1
                if nxt is None:
                    break
                if nxt != e[1]:
                    plan = []
                cur = nxt
            if self.on_run_end is not None and nxt is not None:
                self.extra += self.on_run_end(env, [args_of(o) for o in history]) or []
            if len(history) > 1 and len(self.samples) < 3:
                self.samples.append([args_of(o) for o in history[:12]])
            if self._path_to_unvisited(g.init) is None and self.remaining > 0:
                # the rest is only reachable through nondeterministic results we did not observe
                self.nondet_skips = self.remaining
                break
        return self

    def _exec(self, env, cur, e, history):
        """execute edge e from state cur; returns the state reached, or None to restart"""
        g = self.g
        op = e[0]
        self.steps += 1
        self.ops_count[op["name"]] += 1
        history.append(op)
        try:
            obs = env.step(op)
            target = e
            exp_res = norm_res(op, op.get("res", NONE))
            obs_res = norm_res(op, obs)
            if "alts" in op and obs_res != exp_res:
                # nondeterministic choice: follow what the code did, if the spec allows it
                a = args_of(op)
                sib = [x for x in g.out[cur] if args_of(x[0]) == a and norm_res(x[0], x[0]["res"]) == obs_res]
                if sib:
                    target = sib[0]
                    op = target[0]
                    exp_res = obs_res
            self._mark(cur, e)
            self._mark(cur, target)
            bad = False
            if obs_res != exp_res:
                self.violations.append(Violation("result", result_props(op, obs), args_of(op), exp_res, obs,
                                                 [args_of(o) for o in history]))
                bad = True
            exp_state = g.full[target[1]]
            if self.observable is not None:
                exp_state = {k: v for k, v in exp_state.items() if k in self.observable}
            obs_state = env.project([k for k in exp_state if k not in UNOBSERVABLE])
            d = diff_states(exp_state, obs_state)
            if d:
                props = {FIELD_PROP.get(f[0], "C04") for f in d}
                if op["name"] == "reload":
                    # the writer's bytes matched the spec's message, so the loaded IR differs from it:
                    # the reader (C02) and the round trip (C01)
                    props |= {"C01", "C02"}
                if bad or (op["name"].startswith(("set.", "list.", "symx.")) and
                           any(f[0] in ("mods", "kids", "par", "symx") for f in d)):   # contents and ownership
                    props.add(op_prop(op["name"]))
                self.violations.append(Violation("state", props, args_of(op),
                                                 [list(x[:3]) for x in d[:8]], [[x[0], x[1], x[3]] for x in d[:8]],
                                                 [args_of(o) for o in history]))
                bad = True
            if self.on_step is not None and not bad:
                self.on_step(env, op, target[1])
            return None if bad else target[1]
        except Unprojectable as ex:
            self._mark(cur, e)
            self.violations.append(Violation("unprojectable", {op_prop(op["name"]), "C04"}, args_of(op), None,
                                             str(ex), [args_of(o) for o in history]))
            return None
