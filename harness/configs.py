"""Model-checking configurations of spec/Gtirb.tla.

Each configuration binds the constants (node universe, value domains, enabled
action families, initial attachment) of the one specification.  The MC module
and the .cfg handed to TLC are rendered from this table (constants that a .cfg
cannot express -- tuples, functions, negative numbers -- become definitions of
the MC module and are bound with `<-`).
"""
import copy


class Raw(str):
    """A literal TLA+ expression."""


def tla(v):
    if isinstance(v, Raw):
        return str(v)
    if isinstance(v, bool):
        return "TRUE" if v else "FALSE"
    if isinstance(v, int):
        return str(v) if v >= 0 else "(%d)" % v
    if isinstance(v, str):
        return '"%s"' % v
    if isinstance(v, (set, frozenset)):
        return "{" + ", ".join(sorted(tla(x) for x in v)) + "}"
    if isinstance(v, tuple):
        return "<<" + ", ".join(tla(x) for x in v) + ">>"
    if isinstance(v, list):
        return "<<" + ", ".join(tla(x) for x in v) + ">>"
    if isinstance(v, dict):
        if not v:
            return "<<>>"
        return "(" + " @@ ".join("%s :> %s" % (tla(k), tla(x)) for k, x in sorted(v.items())) + ")"
    raise ValueError("cannot render %r" % (v,))


DEFAULTS = dict(
    IRs=set(), Modules=set(), Sections=set(), Intervals=set(), CodeBlocks=set(), DataBlocks=set(),
    Proxies=set(), Symbols=set(), Exprs=set(), ExprSym={},
    Addrs=set(), ISizes={0}, Offs={0}, BSizes={0}, Names={"a"}, Name0="a", Pays=set(), Labels={"nolabel"},
    Tags=set(), NFlags=7, ByteVals={0, 1}, MaxBytes=0, Families=set(), ArgMax=2, ListIdx=set(),
    Attach0=[], LazyK=3, Queries=set(), EmitKeys={"mods", "kids", "par", "cache"},
    ScalDom={"name": {"s0", "s1", "s2"}, "binary_path": {"s0", "s2"}, "isa": {"E0", "E1"}, "file_format": {"E0", "E1"},
             "byte_order": {"E0", "E1"}, "preferred_addr": {"0", "MAX64"}, "rebase_delta": {"0", "MIN64"},
             "at_end": {"F", "T"}, "decode_mode": {"E0", "E1"}, "xoffset": {"0", "MIN64"}, "xscale": {"1", "-1"},
             "version": {"CUR"}, "kindflip": {"F"}},
    ScalDef={"name": "s0", "binary_path": "s0", "isa": "E0", "file_format": "E0", "byte_order": "E0",
             "preferred_addr": "0", "rebase_delta": "0", "at_end": "F", "decode_mode": "E0", "xoffset": "0",
             "xscale": "1", "version": "CUR", "kindflip": "F"},
    ExprKind={}, ExprSym2={}, Symx0=set(), Cfg0=set(), Pay0=set(), Entry0=set(), Geom0=set(), ReloadWeight=1, SweepOps={"reload"}, SweepMode=False,
)

TREE_KEYS = {"mods", "kids", "par", "cache", "irof", "modof", "secof", "agg"}

ALL_INVARIANTS = ["CacheInv", "ForestInv", "NameIdxInv", "RefIdxInv", "BytesInv", "SymxInv"]


def _rel(name, parents, children, pkind, ckind, rel, extra=None, attach=None, tier="quick"):
    c = dict(extra or {})
    c.update({pkind: set(parents), ckind: set(children)})
    c["Families"] = {("set", rel), ("setq", rel), ("parent", rel)}
    c["Attach0"] = list(attach or ())
    c["EmitKeys"] = set(TREE_KEYS)
    return c


CONFIGS = {}

# --- one configuration per owning set: 2 parents x 3 children, the whole MutableSet interface,
#     one parent attached to an IR and the other detached (so cache updates on both paths).
# Three placements of the second parent: detached, in the same IR as the first, in another IR.
def _rels(suffix, second):
    """second: None (detached), "i1" (same IR) or "i2" (another IR)"""
    def link(chain):
        return [x for x in chain if x is not None]
    m2 = ("m2", second) if second else None
    irs = {"i1", "i2"} if second == "i2" else {"i1"}
    CONFIGS["Rel_sec" + suffix] = _rel("sec", ["m1", "m2"], ["s1", "s2", "s3"], "Modules", "Sections", "sec",
                                       extra={"IRs": irs}, attach=link([("m1", "i1"), m2]))
    CONFIGS["Rel_sym" + suffix] = _rel("sym", ["m1", "m2"], ["y1", "y2", "y3"], "Modules", "Symbols", "sym",
                                       extra={"IRs": irs}, attach=link([("m1", "i1"), m2]))
    CONFIGS["Rel_prx" + suffix] = _rel("prx", ["m1", "m2"], ["p1", "p2", "p3"], "Modules", "Proxies", "prx",
                                       extra={"IRs": irs}, attach=link([("m1", "i1"), m2]))
    CONFIGS["Rel_biv" + suffix] = _rel("biv", ["s1", "s2"], ["v1", "v2", "v3"], "Sections", "Intervals", "biv",
                                       extra={"IRs": irs, "Modules": {"m1", "m2"}},
                                       attach=link([("m1", "i1"), m2, ("s1", "m1"), ("s2", "m2") if second else None]))
    CONFIGS["Rel_blk" + suffix] = _rel("blk", ["v1", "v2"], ["c1", "d1", "d2"], "Intervals", "Blocks", "blk",
                                       extra={"IRs": irs, "Modules": {"m1", "m2"}, "Sections": {"s1", "s2"},
                                              "CodeBlocks": {"c1"}, "DataBlocks": {"d1", "d2"}},
                                       attach=link([("m1", "i1"), m2, ("s1", "m1"), ("s2", "m2") if second else None,
                                                    ("v1", "s1"), ("v2", "s2") if second else None]))
    CONFIGS["Rel_blk" + suffix].pop("Blocks", None)


_rels("", None)
_rels("_same", "i1")
_rels("_other", "i2")

# --- arguments of a foreign kind (a symbol offered to module.sections, ...): SetForeign.  A module owns three
#     sets whose elements share one back pointer, so "child of this module" must not be taken for "member".
CONFIGS["RelX"] = dict(
    IRs={"i1"}, Modules={"m1", "m2"}, Sections={"s1"}, Symbols={"y1"}, Proxies={"p1"}, Intervals={"v1"},
    CodeBlocks={"c1"}, Families={"xkind", ("parent", "sec"), ("parent", "sym"), ("parent", "prx")},
    Attach0=[("m1", "i1"), ("s1", "m1"), ("y1", "m1"), ("p1", "m1"), ("v1", "s1"), ("c1", "v1")],
    EmitKeys=set(TREE_KEYS) | {"named"})

# --- "separately constructed nodes never share flags, AuxData maps, attributes or collections" (C04): two nodes of
#     every kind that holds such a thing, every one- and two-step edit of one of them (run under Depth3); the
#     harness hands every constructor of a kind the same empty mutable argument
CONFIGS["Share"] = dict(
    IRs={"i1", "i2"}, Modules={"m1", "m2"}, Sections={"s1", "s2"}, Intervals={"v1", "v2"}, Symbols={"y1"},
    Exprs={"e1", "e3"}, ExprSym={"e1": "y1", "e3": "y1"}, Tags={0, 1}, ISizes={0, 2}, ByteVals={7}, MaxBytes=1,
    Families={"tags", "bytes", "geom.iv"},
    Attach0=[("m1", "i1"), ("m2", "i2"), ("s1", "m1"), ("s2", "m2"), ("v1", "s1"), ("v2", "s2"), ("y1", "m1")],
    Symx0={("v1", 0, "e1"), ("v2", 0, "e3")},
    EmitKeys=set(TREE_KEYS) | {"tags", "bytes", "isz", "addr", "symx"})

# --- the module list: 2 IRs x 3 modules, the whole MutableSequence interface
CONFIGS["ModList"] = dict(
    IRs={"i1", "i2"}, Modules={"m1", "m2", "m3"}, Sections={"s1"},
    Attach0=[("s1", "m1")],
    Families={"list", "listq", ("parent", "mod")}, ListIdx={-4, -2, -1, 0, 1, 2, 4},
    EmitKeys=set(TREE_KEYS),
)
# quick variant: fewer indices
CONFIGS["ModListQ"] = dict(CONFIGS["ModList"], ListIdx={-1, 0, 2})

# --- whole-subtree moves between two IRs from either end of every relation
CONFIGS["Tree"] = dict(
    IRs={"i1", "i2"}, Modules={"m1", "m2"}, Sections={"s1", "s2"}, Intervals={"v1", "v2"},
    CodeBlocks={"c1"}, DataBlocks={"d1"}, Proxies={"p1"}, Symbols={"y1"},
    Families={"parent", "set", "list", "new", "reload"}, ListIdx={0, 1}, ArgMax=1,
    Attach0=[("m1", "i1"), ("s1", "m1"), ("v1", "s1"), ("c1", "v1"), ("p1", "m1"), ("y1", "m1")],
    EmitKeys=set(TREE_KEYS),
)


CONFIGS["TreeQ"] = dict(
    IRs={"i1", "i2"}, Modules={"m1", "m2"}, Sections={"s1"}, Intervals={"v1"},
    CodeBlocks={"c1"}, DataBlocks=set(), Proxies={"p1"}, Symbols={"y1"},
    Families={"parent", "set", "list", "new", "reload"}, ArgMax=1, ListIdx={0, 1},
    Attach0=[("m1", "i1"), ("s1", "m1"), ("v1", "s1"), ("c1", "v1"), ("p1", "m1"), ("y1", "m1")],
    EmitKeys=set(TREE_KEYS),
)


GEOM_KEYS = TREE_KEYS | {"addr", "isz", "off", "bsz", "baddr"}
CHAIN = [("m1", "i1"), ("s1", "m1")]

# --- geometry: attribute edits and moves that the interval indexes must follow (C05 C06 C12)
CONFIGS["GeomB1"] = dict(   # one interval, two blocks: offsets, sizes, address, membership
    IRs={"i1"}, Modules={"m1"}, Sections={"s1"}, Intervals={"v1"}, CodeBlocks={"c1"}, DataBlocks={"d1"},
    Addrs={0, 3}, ISizes={0, 4}, Offs={0, 2}, BSizes={0, 3},
    Families={"geom", ("parent", "blk")}, Attach0=CHAIN + [("v1", "s1")], EmitKeys=set(GEOM_KEYS))
CONFIGS["GeomB2"] = dict(   # two intervals sharing addresses, one block moving between them
    IRs={"i1"}, Modules={"m1"}, Sections={"s1"}, Intervals={"v1", "v2"}, CodeBlocks={"c1"}, DataBlocks=set(),
    Addrs={0, 2}, ISizes={3}, Offs={0, 2}, BSizes={0, 3},
    Families={"geom", ("parent", "blk"), ("set", "blk")}, ArgMax=1,
    Attach0=CHAIN + [("v1", "s1"), ("v2", "s1")], EmitKeys=set(GEOM_KEYS))
CONFIGS["GeomB2T"] = dict(  # thorough: the same with a second block (374 400 transitions)
    IRs={"i1"}, Modules={"m1"}, Sections={"s1"}, Intervals={"v1", "v2"}, CodeBlocks={"c1"}, DataBlocks={"d1"},
    Addrs={0, 2}, ISizes={3}, Offs={0, 2}, BSizes={0, 3},
    Families={"geom", ("parent", "blk"), ("set", "blk")}, ArgMax=1,
    Attach0=CHAIN + [("v1", "s1"), ("v2", "s1"), ("d1", "v2")], EmitKeys=set(GEOM_KEYS))
CONFIGS["GeomI"] = dict(    # intervals in two sections: address to/from None, size, moves, removal
    IRs={"i1"}, Modules={"m1"}, Sections={"s1", "s2"}, Intervals={"v1", "v2"}, CodeBlocks={"c1"},
    Addrs={0, 3}, ISizes={0, 4}, Offs={0}, BSizes={0},
    Families={"geom.iv", ("parent", "biv")}, Attach0=CHAIN + [("s2", "m1"), ("c1", "v1")],
    EmitKeys=set(GEOM_KEYS))
CONFIGS["GeomSim"] = dict(  # the composed model, too large to enumerate: simulated
    IRs={"i1", "i2"}, Modules={"m1", "m2"}, Sections={"s1", "s2"}, Intervals={"v1", "v2", "v3"},
    CodeBlocks={"c1", "c2"}, DataBlocks={"d1", "d2"},
    Addrs={0, 2, 5}, ISizes={0, 1, 4, 7}, Offs={0, 1, 3, 6}, BSizes={0, 1, 2, 5},
    Families={"geom", "parent", "set", "list", "reload"}, ArgMax=2, ListIdx={0, 1},
    Attach0=[("m1", "i1"), ("m2", "i1"), ("s1", "m1"), ("s2", "m2"), ("v1", "s1"), ("v2", "s1"), ("v3", "s2"),
             ("c1", "v1"), ("d1", "v1"), ("c2", "v2"), ("d2", "v3")],
    EmitKeys=set(GEOM_KEYS))


LAZY_KEYS = {"mods", "kids", "par", "addr", "isz", "off", "bsz", "built", "nev"}
LQ = {(0, 2, 1), (3, 4, 1), (1, 7, 2)}
# --- deferred index maintenance (C12): Lookup actions interleaved with edits; the spec tracks, per
#     lazy index, "materialised?" and the number of pending events (saturating at LazyK), so that TLC
#     distinguishes -- and the walk visits -- every placement of lookups among edits.
CONFIGS["LazyI"] = dict(    # section index: 2 intervals
    IRs={"i1"}, Modules={"m1"}, Sections={"s1"}, Intervals={"v1", "v2"},
    Addrs={1}, ISizes={2}, Families={"geom.iv", ("parent", "biv"), "lookup", "lazy"},
    Queries={(0, 2, 1), (2, 4, 1)}, LazyK=3, Attach0=CHAIN, EmitKeys=set(LAZY_KEYS))
CONFIGS["LazyIQ"] = dict(CONFIGS["LazyI"], Queries={(1, 3, 1)})
CONFIGS["LazyIT"] = dict(CONFIGS["LazyI"] if False else dict(
    IRs={"i1"}, Modules={"m1"}, Sections={"s1"}, Intervals={"v1", "v2"},
    Addrs={0, 3}, ISizes={2}, Families={"geom.iv", ("parent", "biv"), "lookup", "lazy"},
    Queries=LQ, LazyK=3, Attach0=CHAIN, EmitKeys=set(LAZY_KEYS)))
CONFIGS["LazyB"] = dict(    # interval index: 2 blocks
    IRs={"i1"}, Modules={"m1"}, Sections={"s1"}, Intervals={"v1"}, CodeBlocks={"c1"}, DataBlocks={"d1"},
    Addrs={0}, ISizes={4}, Offs={0, 2}, BSizes={2}, Families={"geom.bk", ("parent", "blk"), "lookup", "lazy"},
    Queries={(0, 2, 1), (2, 5, 1)}, LazyK=3, Attach0=CHAIN + [("v1", "s1")], EmitKeys=set(LAZY_KEYS))
CONFIGS["LazyMove"] = dict(  # blocks moved between two intervals from the receiving side, lookups in between
    IRs={"i1"}, Modules={"m1"}, Sections={"s1"}, Intervals={"v1", "v2"}, CodeBlocks={"c1", "c2"},
    Families={("set", "blk"), "lookup", "lazy"}, ArgMax=1, Queries={(0, 1, 1)}, LazyK=3,
    Attach0=CHAIN + [("v1", "s1"), ("v2", "s1"), ("c1", "v1"), ("c2", "v1")], EmitKeys=set(LAZY_KEYS))
CONFIGS["LazySetI"] = dict(  # the section's own set interface under lazy tracking (a member handed to its own set again, ...;
    # v3 has no address: it joins and leaves without an index event)
    IRs={"i1"}, Modules={"m1"}, Sections={"s1"}, Intervals={"v1", "v2", "v3"},
    Addrs={1}, ISizes={2}, Families={("set", "biv"), "lookup", "lazy"}, ArgMax=1,
    Geom0={("v1", 1, 2), ("v2", 1, 2)}, Queries={(0, 4, 1)}, LazyK=3, Attach0=CHAIN + [("v1", "s1"), ("v2", "s1"), ("v3", "s1")], EmitKeys=set(LAZY_KEYS))
CONFIGS["LazySim"] = dict(CONFIGS["GeomSim"], Families={"geom", "parent", "set", "lookup", "lazy", "reload"},
                          Queries={(0, 3, 1), (2, 9, 1), (1, 12, 2), (5, 6, 1)}, LazyK=5,
                          EmitKeys=set(LAZY_KEYS))


SYM_KEYS = {"mods", "kids", "par", "cache", "sname", "pay", "named", "refs", "modof"}
SYM_ATTACH = [("m1", "i1"), ("s1", "m1"), ("v1", "s1"), ("c1", "v1"), ("p1", "m1")]
# --- symbols: name / payload edits, symbol and block moves between two modules (C10)
CONFIGS["Sym1"] = dict(     # one symbol, every payload class, referents moving between modules
    IRs={"i1"}, Modules={"m1", "m2"}, Sections={"s1"}, Intervals={"v1"}, CodeBlocks={"c1"}, Proxies={"p1"},
    Symbols={"y1"}, Names={"a", "b", "EMPTY"}, Pays={"#0", "#7"},
    Families={"sym", ("parent", "sym"), ("parent", "sec"), ("parent", "prx"), ("set", "sym")}, ArgMax=1,
    Attach0=SYM_ATTACH, EmitKeys=set(SYM_KEYS))
CONFIGS["Sym2"] = dict(     # two symbols sharing names and referents
    IRs={"i1"}, Modules={"m1", "m2"}, Sections={"s1"}, Intervals={"v1"}, CodeBlocks={"c1"}, Proxies=set(),
    Symbols={"y1", "y2"}, Names={"a", "EMPTY"}, Pays={"#0"},
    Families={"sym", ("parent", "sym"), ("parent", "sec")},
    Attach0=[a for a in SYM_ATTACH if a[0] != "p1"], EmitKeys=set(SYM_KEYS))
CONFIGS["Sym3"] = dict(     # both modules in one IR: a symbol handed from one module's set to the other's
    IRs={"i1"}, Modules={"m1", "m2"}, Sections={"s1"}, Intervals={"v1"}, CodeBlocks={"c1"}, Proxies={"p1"},
    Symbols={"y1", "y2"}, Names={"a", "b"}, Pays=set(),
    Families={"sym", ("set", "sym"), ("parent", "prx")}, ArgMax=1,
    Attach0=SYM_ATTACH + [("m2", "i1"), ("y1", "m1"), ("y2", "m1")], Pay0={("y1", "c1"), ("y2", "p1")},
    EmitKeys=set(SYM_KEYS))
CONFIGS["SymT"] = dict(     # thorough, model checking only: 3 symbols, all payload classes
    IRs={"i1"}, Modules={"m1", "m2"}, Sections={"s1"}, Intervals={"v1"}, CodeBlocks={"c1"}, Proxies={"p1"},
    Symbols={"y1", "y2", "y3"}, Names={"a", "EMPTY"}, Pays={"#0"},
    Families={"sym", ("parent", "sym"), ("parent", "sec"), ("parent", "prx")},
    Attach0=SYM_ATTACH, EmitKeys=set(SYM_KEYS))

CONFIGS["SymSim"] = dict(   # composed, simulated
    IRs={"i1", "i2"}, Modules={"m1", "m2", "m3"}, Sections={"s1", "s2"}, Intervals={"v1", "v2"},
    CodeBlocks={"c1", "c2"}, DataBlocks={"d1"}, Proxies={"p1", "p2"}, Symbols={"y1", "y2", "y3", "y4"},
    Names={"a", "b", "EMPTY", "NONASCII"}, Pays={"#0", "#7"},
    Families={"sym", "parent", "set", "list", "reload"}, ArgMax=2, ListIdx={0, 1},
    Attach0=[("m1", "i1"), ("m2", "i1"), ("m3", "i2"), ("s1", "m1"), ("s2", "m2"), ("v1", "s1"), ("v2", "s2"),
             ("c1", "v1"), ("d1", "v1"), ("c2", "v2"), ("p1", "m1"), ("p2", "m3"), ("y1", "m1"), ("y2", "m1"),
             ("y3", "m2")],
    EmitKeys=set(SYM_KEYS))

CFG_KEYS = {"mods", "kids", "par", "cfg", "outs", "ins", "nout", "nin"}
# --- CFG as a set of labelled edges (C11)
CONFIGS["Cfg1"] = dict(     # 2 nodes (attached block, detached proxy), absent label vs all-false label
    IRs={"i1"}, Modules={"m1"}, Sections={"s1"}, Intervals={"v1"}, CodeBlocks={"c1"}, Proxies={"p1"},
    Labels={"nolabel", "f"}, Families={"cfg"}, ArgMax=2,
    Attach0=[("m1", "i1"), ("s1", "m1"), ("v1", "s1"), ("c1", "v1")], EmitKeys=set(CFG_KEYS))
CONFIGS["Cfg2"] = dict(     # 3 nodes incl. self loops, one label
    IRs={"i1"}, Modules={"m1"}, Sections={"s1"}, Intervals={"v1"}, CodeBlocks={"c1"}, Proxies={"p1", "p2"},
    Labels={"L1"}, Families={"cfg"}, ArgMax=1,
    Attach0=[("m1", "i1"), ("s1", "m1"), ("v1", "s1"), ("c1", "v1"), ("p1", "m1")], EmitKeys=set(CFG_KEYS))
CONFIGS["CfgMove"] = dict(  # two IRs; a proxy moves, so its own adjacency follows its current IR
    IRs={"i1", "i2"}, Modules={"m1", "m2"}, Sections={"s1"}, Intervals={"v1"}, CodeBlocks={"c1"}, Proxies={"p1"},
    Labels={"L1"}, Families={"cfg", ("parent", "prx")}, ArgMax=0,
    Attach0=[("m1", "i1"), ("m2", "i2"), ("s1", "m1"), ("v1", "s1"), ("c1", "v1"), ("p1", "m1")],
    EmitKeys=set(CFG_KEYS))
CONFIGS["CfgT"] = dict(CONFIGS["Cfg1"], Labels={"nolabel", "f", "L1"})

BYTE_KEYS = {"mods", "kids", "par", "addr", "isz", "off", "bsz", "bytes", "baddr", "bbytes"}
# --- stored bytes and block views (C19)
CONFIGS["Bytes"] = dict(
    IRs={"i1"}, Modules={"m1"}, Sections={"s1"}, Intervals={"v1"}, CodeBlocks={"c1"},
    Addrs={5}, ISizes={0, 1, 2, 3}, Offs={0, 1, 2}, BSizes={0, 1, 3}, ByteVals={0, 7}, MaxBytes=3,
    Families={"geom", "bytes", "reload", "ctor"}, Attach0=[("m1", "i1"), ("s1", "m1"), ("v1", "s1"), ("c1", "v1")],
    EmitKeys=set(BYTE_KEYS))
# (abstract address 0 with BASE 0 is address 0 itself: the one integer that is falsy)
CONFIGS["BytesQ"] = dict(CONFIGS["Bytes"], Addrs={0}, ISizes={0, 2, 3}, Offs={0, 2}, BSizes={0, 3}, ByteVals={7}, MaxBytes=3)

SYMX_KEYS = {"mods", "kids", "par", "addr", "isz", "symx", "tags"}
# --- symbolic_expressions: the MutableMapping interface (C16) and lookups by address (C13)
CONFIGS["SymX"] = dict(
    IRs={"i1"}, Modules={"m1"}, Sections={"s1"}, Intervals={"v1"}, Symbols={"y1"}, Exprs={"e1", "e2"},
    ExprSym={"e1": "y1", "e2": "y1"}, Addrs={2}, ISizes={0, 2}, Offs={0, 1, 3}, ArgMax=2,
    Families={"symx", "geom.iv"}, Attach0=[("m1", "i1"), ("s1", "m1"), ("v1", "s1"), ("y1", "m1")],
    EmitKeys=set(SYMX_KEYS))
CONFIGS["SymX2"] = dict(    # two intervals in two sections: moves and address changes under stored expressions
    IRs={"i1"}, Modules={"m1"}, Sections={"s1", "s2"}, Intervals={"v1", "v2"}, Symbols={"y1"}, Exprs={"e1"},
    ExprSym={"e1": "y1"}, Addrs={2}, ISizes={2}, Offs={1}, ArgMax=1,
    Families={"symx", "geom.iv", ("parent", "biv"), "reload"},
    Attach0=[("m1", "i1"), ("s1", "m1"), ("s2", "m1"), ("v1", "s1"), ("y1", "m1")],
    EmitKeys=set(SYMX_KEYS))


CONFIGS["SymX2T"] = dict(CONFIGS["SymX2"], Offs={0, 3})
CONFIGS["SymXBig"] = dict(  # enough intervals per section that the section's lazy index replays pending events
    IRs={"i1"}, Modules={"m1"}, Sections={"s1", "s2"}, Intervals={"v1", "v2", "v3", "v4", "v5", "v6"}, Symbols={"y1"},
    Exprs={"e1", "e2"}, ExprSym={"e1": "y1", "e2": "y1"}, Addrs={0, 2, 5, 9}, ISizes={0, 1, 4, 7}, Offs={0, 1, 3}, ArgMax=1,
    Families={"symx", "geom.iv", ("parent", "biv")},
    Attach0=[("m1", "i1"), ("s1", "m1"), ("s2", "m1"), ("y1", "m1")] + [("v%d" % k, "s1") for k in range(1, 7)],
    Symx0={("v1", 0, "e1"), ("v2", 1, "e2"), ("v3", 0, "e1"), ("v4", 3, "e2"), ("v5", 1, "e1"), ("v6", 0, "e2")},
    EmitKeys=set(SYMX_KEYS))


def proto_base(schema):
    """universe of the file-format checks (C01 C02 C09 C17 C18); enum domains come from /repo/proto"""
    n = {k: len(v) for k, v in schema.enums.items()}
    labels = {"nolabel"} | {"L%d%d%d" % (k, c, d) for k in range(n["EdgeType"]) for c in (0, 1) for d in (0, 1)}
    return dict(
        IRs={"i1"}, Modules={"m1", "m2"}, Sections={"s1", "s2"}, Intervals={"v1", "v2"}, CodeBlocks={"c1", "c2"},
        DataBlocks={"d1"}, Proxies={"p1"}, Symbols={"y1", "y2", "y3"}, Exprs={"e1", "e2", "e3", "e4", "e5"},
        # two expressions of each kind, so that state shared between separately built ones shows
        # (e5: both operands of a SymAddrAddr are one symbol -- and it differs from e2 in the second operand only)
        ExprKind={"e1": "ac", "e2": "aa", "e3": "ac", "e4": "aa", "e5": "aa"},
        ExprSym={"e1": "y1", "e2": "y1", "e3": "y3", "e4": "y3", "e5": "y1"},
        ExprSym2={"e1": "none", "e2": "y2", "e3": "none", "e4": "y3", "e5": "y1"},
        Attach0=[("m1", "i1"), ("m2", "i1"), ("s1", "m1"), ("s2", "m2"), ("v1", "s1"), ("v2", "s2"), ("c1", "v1"),
                 ("d1", "v1"), ("c2", "v2"), ("p1", "m1"), ("y1", "m1"), ("y2", "m1"), ("y3", "m2")],
        Pay0={("y1", "c1"), ("y2", "#0"), ("y3", "c2")}, Entry0={("m1", "c1")},
        Symx0={("v1", 0, "e1"), ("v1", 3, "e2"), ("v2", 1, "e3"), ("v2", 0, "e4")},
        Cfg0={("i1", (["c1", "c2", "p1"][k % 3], ["c1", "c2", "p1"][(k // 3) % 3], lab))
              for k, lab in enumerate(sorted(labels))} | {("i1", ("c1", "c1", "L000")), ("i1", ("c1", "c1", "nolabel"))},
        Addrs={0, 5}, ISizes={0, 4}, Offs={0, 1, 3}, BSizes={0, 2}, Names={"a", "EMPTY", "NONASCII"}, Name0="a",
        Pays={"#0", "#7"}, Labels=labels, Tags=set(range(8)), NFlags=n["SectionFlag"], ByteVals={0, 255}, MaxBytes=2,
        ArgMax=1, ListIdx={0, 1},
        ScalDom={"name": {"s0", "s1", "s2"}, "binary_path": {"s0", "s1", "s2"},
                 "isa": {"E%d" % k for k in range(n["ISA"])},
                 "file_format": {"E%d" % k for k in range(n["FileFormat"])},
                 "byte_order": {"E%d" % k for k in range(n["ByteOrder"])},
                 "decode_mode": {"E%d" % k for k in range(n["DecodeMode"])},
                 "preferred_addr": {"0", "1", "MAX64", "2^63"}, "rebase_delta": {"0", "1", "-1", "MIN64", "MAX63"},
                 "at_end": {"F", "T"}, "kindflip": {"F"}, "version": {"CUR", "NEXT", "ZERO"}, "xoffset": {"0", "1", "-1", "MIN64", "MAX63"},
                 "xscale": {"0", "1", "-1", "MIN64", "MAX63"}},
        EmitKeys={"mods", "kids", "par", "cache", "addr", "isz", "off", "bsz", "sname", "pay", "symx", "cfg", "bytes",
                  "tags", "entry", "scal", "mnamed"},
    )


CONFIGS["GeomBig"] = dict(  # enough values per index that pending events are replayed rather than rebuilt
    IRs={"i1"}, Modules={"m1"}, Sections={"s1", "s2"}, Intervals={"v1", "v2", "v3", "v4", "v5", "v6"},
    CodeBlocks={"c1", "c2", "c3", "c4"}, DataBlocks={"d1", "d2", "d3", "d4"},
    Addrs={0, 2, 5, 9}, ISizes={0, 1, 4, 7}, Offs={0, 1, 3, 6}, BSizes={0, 1, 2, 5},
    Families={"geom", ("parent", "blk"), ("parent", "biv")},
    Attach0=[("m1", "i1"), ("s1", "m1"), ("s2", "m1")] + [("v%d" % k, "s1") for k in range(1, 7)]
            + [(b, "v1") for b in ("c1", "c2", "c3", "c4", "d1", "d2", "d3")] + [("d4", "v2")],
    EmitKeys=set(GEOM_KEYS))


def get(name, extra=None):
    c = copy.deepcopy(DEFAULTS)
    c.update(copy.deepcopy(CONFIGS.get(name, {})))
    c.update(copy.deepcopy(extra or {}))
    c["Families"] = {f if isinstance(f, tuple) else (f, "*") for f in c["Families"]}
    return c


def render(name, *, emit=False, invariants=None, constraints=(), consts=None, view=True,
           extends="Gtirb", spec="Spec", postcondition=None, action_constraints=(), gate="SweepGate"):
    """Returns (module_name, {filename: text}, cfg_text)."""
    c = consts if consts is not None else get(name)
    mod = "MC_" + name
    lines = ["---- MODULE %s ----" % mod, "EXTENDS %s" % extends]
    cfg = ["SPECIFICATION %s" % spec, "CONSTANTS"]
    for k in sorted(c):
        lines.append("c_%s == %s" % (k, tla(c[k])))
        cfg.append("  %s <- c_%s" % (k, k))
    lines.append("c_Gate(names) == %s(names)" % gate)
    cfg.append("  Gate <- c_Gate")
    lines.append("====")
    for inv in (ALL_INVARIANTS if invariants is None else invariants):
        cfg.append("INVARIANT %s" % inv)
    for k in constraints:
        cfg.append("CONSTRAINT %s" % k)
    if view:
        cfg.append("VIEW absView")
    for k in action_constraints:
        cfg.append("ACTION_CONSTRAINT %s" % k)
    if emit:
        cfg.append("ACTION_CONSTRAINT Emit")
    if postcondition:
        cfg.append("POSTCONDITION %s" % postcondition)
    cfg.append("CHECK_DEADLOCK FALSE")
    return mod, {mod + ".tla": "\n".join(lines) + "\n"}, "\n".join(cfg) + "\n"
