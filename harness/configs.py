"""Model-checking configurations of spec/Gtirb.tla.

Each configuration binds the constants (node universe, value domains, enabled
action families, initial attachment) of the one specification.  The MC module
and the .cfg handed to TLC are rendered from this table (constants that a .cfg
cannot express -- tuples, functions, negative numbers -- become definitions of
the MC module and are bound with `<-`).
"""
import copy


class Raw(str):
    """A literal TLA+ expression."""


def tla(v):
    if isinstance(v, Raw):
        return str(v)
    if isinstance(v, bool):
        return "TRUE" if v else "FALSE"
    if isinstance(v, int):
        return str(v) if v >= 0 else "(%d)" % v
    if isinstance(v, str):
        return '"%s"' % v
    if isinstance(v, (set, frozenset)):
        return "{" + ", ".join(sorted(tla(x) for x in v)) + "}"
    if isinstance(v, tuple):
        return "<<" + ", ".join(tla(x) for x in v) + ">>"
    if isinstance(v, list):
        return "<<" + ", ".join(tla(x) for x in v) + ">>"
    if isinstance(v, dict):
        if not v:
            return "<<>>"
        return "(" + " @@ ".join("%s :> %s" % (tla(k), tla(x)) for k, x in sorted(v.items())) + ")"
    raise ValueError("cannot render %r" % (v,))


DEFAULTS = dict(
    IRs=set(), Modules=set(), Sections=set(), Intervals=set(), CodeBlocks=set(), DataBlocks=set(),
    Proxies=set(), Symbols=set(), Exprs=set(), ExprSym={},
    Addrs=set(), ISizes={0}, Offs={0}, BSizes={0}, Names={"a"}, Pays=set(), Labels={"nolabel"},
    Tags=set(), ByteVals={0, 1}, MaxBytes=0, Families=set(), ArgMax=2, ListIdx=set(),
    Attach0=[], LazyK=3, Queries=set(), EmitKeys={"mods", "kids", "par", "cache"},
)

TREE_KEYS = {"mods", "kids", "par", "cache", "irof", "modof", "secof", "agg"}

ALL_INVARIANTS = ["CacheInv", "ForestInv", "NameIdxInv", "RefIdxInv", "BytesInv", "SymxInv"]


def _rel(name, parents, children, pkind, ckind, rel, extra=None, attach=None, tier="quick"):
    c = dict(extra or {})
    c.update({pkind: set(parents), ckind: set(children)})
    c["Families"] = {("set", rel), ("setq", rel), ("parent", rel)}
    c["Attach0"] = list(attach or ())
    c["EmitKeys"] = set(TREE_KEYS)
    return c


CONFIGS = {}

# --- one configuration per owning set: 2 parents x 3 children, the whole MutableSet interface,
#     one parent attached to an IR and the other detached (so cache updates on both paths).
CONFIGS["Rel_sec"] = _rel("sec", ["m1", "m2"], ["s1", "s2", "s3"], "Modules", "Sections", "sec",
                          extra={"IRs": {"i1"}}, attach=[("m1", "i1")])
CONFIGS["Rel_sym"] = _rel("sym", ["m1", "m2"], ["y1", "y2", "y3"], "Modules", "Symbols", "sym",
                          extra={"IRs": {"i1"}}, attach=[("m1", "i1")])
CONFIGS["Rel_prx"] = _rel("prx", ["m1", "m2"], ["p1", "p2", "p3"], "Modules", "Proxies", "prx",
                          extra={"IRs": {"i1"}}, attach=[("m1", "i1")])
CONFIGS["Rel_biv"] = _rel("biv", ["s1", "s2"], ["v1", "v2", "v3"], "Sections", "Intervals", "biv",
                          extra={"IRs": {"i1"}, "Modules": {"m1"}},
                          attach=[("m1", "i1"), ("s1", "m1")])
CONFIGS["Rel_blk"] = _rel("blk", ["v1", "v2"], ["c1", "d1", "d2"], "Intervals", "Blocks", "blk",
                          extra={"IRs": {"i1"}, "Modules": {"m1"}, "Sections": {"s1"},
                                 "CodeBlocks": {"c1"}, "DataBlocks": {"d1", "d2"}},
                          attach=[("m1", "i1"), ("s1", "m1"), ("v1", "s1")])
for _k in ("Rel_blk",):
    CONFIGS[_k].pop("Blocks", None)

# --- the module list: 2 IRs x 3 modules, the whole MutableSequence interface
CONFIGS["ModList"] = dict(
    IRs={"i1", "i2"}, Modules={"m1", "m2", "m3"}, Sections={"s1"},
    Attach0=[("s1", "m1")],
    Families={"list", "listq", ("parent", "mod")}, ListIdx={-4, -2, -1, 0, 1, 2, 4},
    EmitKeys=set(TREE_KEYS),
)
# quick variant: fewer indices
CONFIGS["ModListQ"] = dict(CONFIGS["ModList"], ListIdx={-1, 0, 2})

# --- whole-subtree moves between two IRs from either end of every relation
CONFIGS["Tree"] = dict(
    IRs={"i1", "i2"}, Modules={"m1", "m2"}, Sections={"s1", "s2"}, Intervals={"v1", "v2"},
    CodeBlocks={"c1"}, DataBlocks={"d1"}, Proxies={"p1"}, Symbols={"y1"},
    Families={"parent", "set", "list", "new", "reload"}, ListIdx={0, 1}, ArgMax=1,
    Attach0=[("m1", "i1"), ("s1", "m1"), ("v1", "s1"), ("c1", "v1"), ("p1", "m1"), ("y1", "m1")],
    EmitKeys=set(TREE_KEYS),
)


CONFIGS["TreeQ"] = dict(
    IRs={"i1", "i2"}, Modules={"m1", "m2"}, Sections={"s1"}, Intervals={"v1"},
    CodeBlocks={"c1"}, DataBlocks=set(), Proxies={"p1"}, Symbols={"y1"},
    Families={"parent", "set", "list", "new", "reload"}, ArgMax=1, ListIdx={0, 1},
    Attach0=[("m1", "i1"), ("s1", "m1"), ("v1", "s1"), ("c1", "v1"), ("p1", "m1"), ("y1", "m1")],
    EmitKeys=set(TREE_KEYS),
)


def get(name):
    c = copy.deepcopy(DEFAULTS)
    c.update(copy.deepcopy(CONFIGS[name]))
    c["Families"] = {f if isinstance(f, tuple) else (f, "*") for f in c["Families"]}
    return c


def render(name, *, emit=False, invariants=None, constraints=(), consts=None, view=True):
    """Returns (module_name, {filename: text}, cfg_text)."""
    c = consts if consts is not None else get(name)
    mod = "MC_" + name
    lines = ["---- MODULE %s ----" % mod, "EXTENDS Gtirb"]
    cfg = ["SPECIFICATION Spec", "CONSTANTS"]
    for k in sorted(c):
        lines.append("c_%s == %s" % (k, tla(c[k])))
        cfg.append("  %s <- c_%s" % (k, k))
    lines.append("====")
    for inv in (ALL_INVARIANTS if invariants is None else invariants):
        cfg.append("INVARIANT %s" % inv)
    for k in constraints:
        cfg.append("CONSTRAINT %s" % k)
    if view:
        cfg.append("VIEW absView")
    if emit:
        cfg.append("ACTION_CONSTRAINT Emit")
    cfg.append("CHECK_DEADLOCK FALSE")
    return mod, {mod + ".tla": "\n".join(lines) + "\n"}, "\n".join(cfg) + "\n"
