"""C07 / C08: the AuxData codecs against spec/AuxWire.tla (TLC computes every expected byte)."""
import io
import json
import os
import random
import struct
import uuid as uuidlib

from . import tlc
from .build import MachineryFailure, workdir

INTS = {"uint8_t": (1, False), "int8_t": (1, True), "uint16_t": (2, False), "int16_t": (2, True),
        "uint32_t": (4, False), "int32_t": (4, True), "uint64_t": (8, False), "int64_t": (8, True),
        "Addr": (8, False)}
LEAVES = list(INTS) + ["bool", "float", "double", "string", "UUID", "Offset"]
HASHABLE_LEAVES = LEAVES  # every leaf value is hashable in Python


def T(name, *subs):
    return {"name": name, "subs": list(subs)}


def show(t):
    return t["name"] if not t["subs"] else t["name"] + "<" + ",".join(show(x) for x in t["subs"]) + ">"


# ---- JSON value <-> Python value ---------------------------------------------------------------
def int_j(n):
    m = abs(n)
    return {"neg": n < 0, "mag": [(m >> (16 * i)) & 0xFFFF for i in range(4)]}


def j_int(j):
    m = sum(l << (16 * i) for i, l in enumerate(j["mag"]))
    return -m if j["neg"] else m


def dbl_j(x):
    (w,) = struct.unpack("<Q", struct.pack("<d", x))
    m = w & ((1 << 52) - 1)
    return {"s": w >> 63, "e": (w >> 52) & 0x7FF, "m": [(m >> (16 * i)) & 0xFFFF for i in range(4)]}


def j_dbl(j):
    m = sum(l << (16 * i) for i, l in enumerate(j["m"]))
    return struct.unpack("<d", struct.pack("<Q", (j["s"] << 63) | (j["e"] << 52) | m))[0]


def flt_j(x):
    (w,) = struct.unpack("<I", struct.pack("<f", x))
    m = w & ((1 << 23) - 1)
    return {"s": w >> 31, "e": (w >> 23) & 0xFF, "m": [m & 0xFFFF, m >> 16]}


def j_flt(j):
    m = j["m"][0] | (j["m"][1] << 16)
    return struct.unpack("<f", struct.pack("<I", (j["s"] << 31) | (j["e"] << 23) | m))[0]


def _scribble(v, depth=0):
    """edit every mutable container of a decoded value in place (after it has been recorded)"""
    if depth > 6:
        return
    if isinstance(v, list):
        for x in v:
            _scribble(x, depth + 1)
        v.append("<scribble>")
    elif isinstance(v, dict):
        for x in list(v.values()):
            _scribble(x, depth + 1)
        v["<scribble>"] = "<scribble>"
    elif isinstance(v, set):
        v.add("<scribble>")
    elif isinstance(v, tuple):
        for x in v:
            _scribble(x, depth + 1)


class Conv:
    """conversions that need the IR (UUIDs naming attached nodes come back as Node objects)"""

    def __init__(self, gtirb, ir):
        self.g, self.ir = gtirb, ir
        self.nodes_seen = []
        self.plain_seen = []

    def to_py(self, t, j):
        n = t["name"]
        if n in INTS:
            return j_int(j)
        if n == "bool":
            return bool(j)
        if n == "double":
            return j_dbl(j)
        if n == "float":
            return j_flt(j)
        if n == "string":
            return "".join(map(chr, j))
        if n == "UUID":
            return uuidlib.UUID(bytes=bytes(j))
        if n == "Offset":
            return self.g.Offset(uuidlib.UUID(bytes=bytes(j["u"])), j_int(j["d"]))
        if n == "sequence":
            items = [self.to_py(t["subs"][0], x) for x in j]
            if t["subs"][0]["name"] == "uint8_t":
                # any Sequence of small integers is a value of this type: also bytes and bytearray objects
                self._seq = getattr(self, "_seq", 0) + 1
                return [items, bytes(items), bytearray(items)][self._seq % 3]
            return items
        if n == "set":
            return {self.to_py(t["subs"][0], x) for x in j}
        if n == "mapping":
            return {self.to_py(t["subs"][0], k): self.to_py(t["subs"][1], v) for k, v in j}
        if n == "tuple":
            return tuple(self.to_py(s, x) for s, x in zip(t["subs"], j))
        if n == "variant":
            return self.g.Variant(j["i"], self.to_py(t["subs"][j["i"]], j["v"]))
        raise KeyError(n)

    def _uuid(self, x):
        if isinstance(x, self.g.Node):
            if self.ir.get_by_uuid(x.uuid) is not x:
                raise ValueError("decoded a Node that is not the attached object")
            self.nodes_seen.append(list(x.uuid.bytes))
            return list(x.uuid.bytes)
        if isinstance(x, uuidlib.UUID):
            self.plain_seen.append(list(x.bytes))
            return list(x.bytes)
        raise ValueError("not a UUID or Node: %r" % (x,))

    def to_j(self, t, v):
        """decoded Python value -> JSON; raises ValueError when the value has the wrong Python type"""
        n = t["name"]
        if n in INTS:
            if not isinstance(v, int) or isinstance(v, bool):
                raise ValueError("int expected, got %r" % (v,))
            return int_j(v)
        if n == "bool":
            if not isinstance(v, bool):
                raise ValueError("bool expected")
            return v
        if n in ("double", "float"):
            if not isinstance(v, float):
                raise ValueError("float expected")
            return dbl_j(v) if n == "double" else flt_j(v)
        if n == "string":
            if not isinstance(v, str):
                raise ValueError("str expected")
            return [ord(c) for c in v]
        if n == "UUID":
            return self._uuid(v)
        if n == "Offset":
            if not isinstance(v, self.g.Offset):
                raise ValueError("Offset expected")
            return {"u": self._uuid(v.element_id), "d": int_j(v.displacement)}
        if n == "sequence":
            if not isinstance(v, list):
                raise ValueError("list expected")
            return [self.to_j(t["subs"][0], x) for x in v]
        if n == "set":
            if not isinstance(v, set):
                raise ValueError("set expected")
            return [self.to_j(t["subs"][0], x) for x in v]
        if n == "mapping":
            if not isinstance(v, dict):
                raise ValueError("dict expected")
            return [[self.to_j(t["subs"][0], k), self.to_j(t["subs"][1], x)] for k, x in v.items()]
        if n == "tuple":
            if not isinstance(v, tuple) or len(v) != len(t["subs"]):
                raise ValueError("tuple expected")
            return [self.to_j(s, x) for s, x in zip(t["subs"], v)]
        if n == "variant":
            if not isinstance(v, self.g.Variant):
                raise ValueError("Variant expected")
            return {"i": v.index, "v": self.to_j(t["subs"][v.index], v.val)}
        raise KeyError(n)


# ---- inputs ---------------------------------------------------------------------------------------
class Gen:
    def __init__(self, rng, attached, foreign):
        self.r, self.att, self.foreign = rng, attached, foreign

    def boundary(self, n):
        """boundary values of a leaf type (JSON form)"""
        if n in INTS:
            w, s = INTS[n]
            lo, hi = (-(1 << (8 * w - 1)), (1 << (8 * w - 1)) - 1) if s else (0, (1 << (8 * w)) - 1)
            vals = {lo, hi, 0, 1, hi - 1, lo + 1, hi // 2 + 1, 0x80 % (hi + 1), 0xFF % (hi + 1)}
            if s:
                vals |= {-1, -128 if lo <= -128 else -1}
            return [int_j(v) for v in sorted(vals)]
        if n == "bool":
            return [True, False]
        if n == "double":
            xs = [0.0, -0.0, float("inf"), float("-inf"), 5e-324, 1.7976931348623157e308, 1.0, -2.5,
                  0.1, 3.141592653589793, 2.2250738585072014e-308]
            return [dbl_j(x) for x in xs] + [{"s": 0, "e": 2047, "m": [0, 0, 0, 8]}, {"s": 1, "e": 2047, "m": [1, 0, 0, 0]}]
        if n == "float":
            xs = [0.0, -0.0, float("inf"), float("-inf"), 1.0, -2.5, 1.401298464324817e-45, 3.4028234663852886e38,
                  0.5, 1.1754943508222875e-38, 16777216.0]
            return [flt_j(x) for x in xs] + [{"s": 0, "e": 255, "m": [0, 64]}]
        if n == "string":
            ss = ["", "a", "é", "中", "\U0001f600", "\x00", "<>,", "a\x00b", "\x7f\x80߿ࠀ￿\U00010000\U0010ffff",
                  "mapping<string,UUID>", "x" * 300, "é" * 130, "\ufeffsection", "\ufeff", "a\ufeff", "\ufffe\ufffd"]
            return [[ord(c) for c in s] for s in ss]
        if n == "UUID":
            return [list(u) for u in self.att[:2] + self.foreign[:2]] + [[0] * 16, [255] * 16]
        if n == "Offset":
            return [{"u": list(self.att[0]), "d": int_j(0)}, {"u": list(self.foreign[0]), "d": int_j((1 << 64) - 1)},
                    {"u": list(self.att[1]), "d": int_j(1 << 32)}]
        raise KeyError(n)

    def rand_leaf(self, n):
        r = self.r
        if r.random() < 0.5:
            return r.choice(self.boundary(n))
        if n in INTS:
            w, s = INTS[n]
            lo, hi = (-(1 << (8 * w - 1)), (1 << (8 * w - 1)) - 1) if s else (0, (1 << (8 * w)) - 1)
            return int_j(r.randint(lo, hi))
        if n == "bool":
            return r.random() < 0.5
        if n == "double":
            return {"s": r.randint(0, 1), "e": r.randint(0, 2047), "m": [r.randint(0, 65535) for _ in range(3)] + [r.randint(0, 15)]}
        if n == "float":
            return {"s": r.randint(0, 1), "e": r.randint(0, 255), "m": [r.randint(0, 65535), r.randint(0, 127)]}
        if n == "string":
            k = r.choice([0, 1, 2, 5, 17, 64])
            out = []
            for _ in range(k):
                cp = r.choice([r.randint(0, 127), r.randint(128, 2047), r.randint(2048, 65535), r.randint(65536, 0x10FFFF),
                               60, 62, 44, 0, 0xFEFF, 0xFFFD, 0x2028, 0x85, 0x0D])
                if 0xD800 <= cp <= 0xDFFF:
                    cp = 0x4E2D
                out.append(cp)
            return out
        if n == "UUID":
            return list(r.choice(self.att + self.foreign))
        if n == "Offset":
            return {"u": list(r.choice(self.att + self.foreign)), "d": int_j(r.choice([0, 1, (1 << 64) - 1, r.randint(0, 1 << 40)]))}
        raise KeyError(n)

    def rand_type(self, depth, key=False):
        r = self.r
        if depth <= 0 or r.random() < 0.25:
            return T(r.choice(LEAVES))
        k = r.choice(["sequence", "set", "mapping", "tuple", "variant"])
        if key:  # Python needs hashable set elements / mapping keys: leaves or tuples of hashables
            k = r.choice(["tuple", "leaf"])
            if k == "leaf":
                return T(r.choice(LEAVES))
            return T("tuple", *[self.rand_type(depth - 1, key=True) for _ in range(r.randint(1, 3))])
        if k == "sequence":
            return T(k, self.rand_type(depth - 1))
        if k == "set":
            return T(k, self.rand_type(depth - 1, key=True))
        if k == "mapping":
            return T(k, self.rand_type(depth - 1, key=True), self.rand_type(depth - 1))
        return T(k, *[self.rand_type(depth - 1) for _ in range(r.randint(1, 3))])

    def rand_value(self, t, maxn=3):
        n, r = t["name"], self.r
        if not t["subs"] and n in LEAVES:
            return self.rand_leaf(n)
        if n == "sequence":
            return [self.rand_value(t["subs"][0], maxn) for _ in range(r.randint(0, maxn))]
        if n == "set":
            return self._distinct(t["subs"][0], r.randint(0, maxn), maxn)
        if n == "mapping":
            ks = self._distinct(t["subs"][0], r.randint(0, maxn), maxn)
            return [[k, self.rand_value(t["subs"][1], maxn)] for k in ks]
        if n == "tuple":
            return [self.rand_value(s, maxn) for s in t["subs"]]
        if n == "variant":
            i = r.randrange(len(t["subs"]))
            return {"i": i, "v": self.rand_value(t["subs"][i], maxn)}
        raise KeyError(n)

    def _distinct(self, t, k, maxn):
        out, seen = [], set()
        for _ in range(k * 3):
            v = self.rand_value(t, maxn)
            key = canon_key(t, v)
            if key not in seen:
                seen.add(key)
                out.append(v)
            if len(out) == k:
                break
        return out


def canon_key(t, v):
    """distinctness of generated set elements / mapping keys as *Python* will see them (-0.0 == 0.0, NaN)"""
    n = t["name"]
    if n == "double" or n == "float":
        x = j_dbl(v) if n == "double" else j_flt(v)
        return ("f", "nan" if x != x else x)   # at most one NaN per set: NaN objects are never equal
    if n in INTS:
        return ("i", j_int(v))
    if n == "tuple":
        return tuple(canon_key(s, x) for s, x in zip(t["subs"], v))
    return json.dumps(v, sort_keys=True)


def systematic(gen):
    """every leaf type with every boundary value; every container over every leaf with 0, 1, 2 elements;
    every variant alternative; selected nestings"""
    out = []
    for n in LEAVES:
        for v in gen.boundary(n):
            out.append((T(n), v))
    for n in LEAVES:
        b = gen.boundary(n)
        out.append((T("sequence", T(n)), []))
        out.append((T("sequence", T(n)), [b[0]]))
        out.append((T("sequence", T(n)), [b[-1], b[0], b[-1]]))
        out.append((T("set", T(n)), []))
        out.append((T("set", T(n)), gen._distinct(T(n), 2, 2)))
        out.append((T("mapping", T(n), T("string")), [[k, [97]] for k in gen._distinct(T(n), 2, 2)]))
        out.append((T("mapping", T("string"), T(n)), [[[107], b[0]], [[], b[-1]]]))
        out.append((T("tuple", T(n), T("uint8_t"), T(n)), [b[0], int_j(7), b[-1]]))
        for i in range(3):
            out.append((T("variant", T("bool"), T(n), T("string")), {"i": i, "v": [True, b[0], [120]][i]}))
    u8, st, uu = T("uint8_t"), T("string"), T("UUID")
    out += [
        (T("mapping", st, T("set", uu)), [[[102], [list(gen.att[0]), list(gen.foreign[0])]], [[], []]]),
        (T("sequence", T("mapping", uu, T("sequence", T("Offset")))),
         [[[list(gen.att[1]), [{"u": list(gen.att[0]), "d": int_j(5)}]]], []]),
        (T("tuple", T("sequence", T("tuple", st, T("int64_t"))), T("variant", u8, T("set", st))),
         [[[[97], int_j(-1)], [[], int_j(1 << 62)]], {"i": 1, "v": [[98], []]}]),
        (T("set", T("tuple", u8, st)), [[int_j(1), [97]], [int_j(1), [98]]]),
        (T("mapping", T("tuple", uu, T("uint64_t")), T("double")), [[[list(gen.att[0]), int_j(9)], dbl_j(0.5)]]),
        (T("sequence", T("sequence", T("sequence", u8))), [[[int_j(1)], []], []]),
        (T("tuple"), []),
    ]
    return out


# ---- TLC passes -----------------------------------------------------------------------------------
def tlc_pass(path, mode, n, chunks=8):
    lines = open(path).read().splitlines()
    import concurrent.futures as cf
    chunks = max(1, min(chunks, len(lines) // 150 + 1))
    parts = [list(range(i, len(lines), chunks)) for i in range(chunks)]
    cfg = tlc.render_cfg({}, spec="JSpec", invariants=["Judge"], postcondition="Done")

    def one(ixs):
        wd = workdir("gtirbverif-auxin-")
        p = os.path.join(wd, "part.ndjson")
        with open(p, "w") as fh:
            fh.write("\n".join(lines[i] for i in ixs) + "\n")
        r = tlc.run("AuxWireJudge", cfg, workers=2, env_extra={"JUDGE_FILE": p, "JUDGE_MODE": mode}, timeout=3000)
        if r.errors or r.violation:
            raise MachineryFailure("AuxWireJudge(%s): %s" % (mode, (r.errors or [r.violation])[0][:2000]))
        if sum(x.get("judged", 0) for x in r.records) != len(ixs):
            raise MachineryFailure("AuxWireJudge(%s) judged too few records" % mode)
        out = []
        for x in r.records:
            if "i" in x:
                out.append(("bytes", ixs[x["i"] - 1], x["bytes"]))
            elif "bad" in x:
                out.append(("bad", ixs[x["bad"] - 1], x))
        return out, r.distinct

    res, states = [], 0
    with cf.ThreadPoolExecutor(max_workers=chunks) as ex:
        for o, d in ex.map(one, parts):
            res += o
            states += d
    return res, states


def make_ir(gtirb):
    g = gtirb
    ir = g.IR(uuid=uuidlib.UUID(int=0x11))
    m = g.Module(name="m", ir=ir, uuid=uuidlib.UUID(int=0x22))
    s = g.Section(name="s", module=m, uuid=uuidlib.UUID(int=0x33))
    bi = g.ByteInterval(section=s, size=4, uuid=uuidlib.UUID(int=0x44))
    g.CodeBlock(byte_interval=bi, size=2, uuid=uuidlib.UUID(bytes=bytes(range(16))))
    g.Symbol("y", module=m, uuid=uuidlib.UUID(bytes=bytes(range(255, 239, -1))))
    attached = [bytes(range(16)), bytes(range(255, 239, -1)), uuidlib.UUID(int=0x22).bytes, uuidlib.UUID(int=0x44).bytes]
    foreign = [uuidlib.UUID(int=0x99).bytes, bytes([0xAB] * 16), uuidlib.UUID(int=(1 << 128) - 2).bytes]
    return ir, attached, foreign


class _Timeout(Exception):
    pass


class time_limit:
    """bound one codec call (a misaligned stream can make a decoder loop over a garbage count)"""

    def __init__(self, seconds):
        self.s = seconds

    def _raise(self, *a):
        raise _Timeout("no result after %ss" % self.s)

    def __enter__(self):
        import signal
        self.old = signal.signal(signal.SIGALRM, self._raise)
        signal.setitimer(signal.ITIMER_REAL, self.s)

    def __exit__(self, *a):
        import signal
        signal.setitimer(signal.ITIMER_REAL, 0)
        signal.signal(signal.SIGALRM, self.old)
        return False


class Java:
    """the repository's Java auxdatacodec classes, compiled from /repo and driven by harness/java/CodecDriver"""

    def __init__(self):
        import shutil
        import subprocess
        from .build import REPO
        self.ok = False
        self.why = ""
        if not shutil.which("javac") or not shutil.which("java"):
            self.why = "javac/java not installed"
            return
        self.out = os.path.join(workdir("gtirbverif-java-"), "classes")
        here = os.path.join(os.path.dirname(os.path.abspath(__file__)), "java")
        p = subprocess.run([os.path.join(here, "build.sh"), self.out], capture_output=True, text=True,
                           env=dict(os.environ, VERIF_REPO=REPO))
        if p.returncode != 0:
            self.why = "javac failed: " + (p.stderr or p.stdout)[-400:]
            return
        self.ok = True

    def run(self, requests):
        """requests: list of (type name, bytes) -> list of parsed JSON replies"""
        import subprocess
        inp = "".join("%s\t%s\n" % (n, b.hex()) for n, b in requests)
        p = subprocess.run(["java", "-Xmx1g", "-Xss64m", "-cp", self.out, "CodecDriver"], input=inp, capture_output=True,
                           text=True, timeout=600)
        lines = p.stdout.splitlines()
        if len(lines) != len(requests):
            raise MachineryFailure("CodecDriver answered %d of %d requests: %s" % (len(lines), len(requests), p.stderr[-300:]))
        return [json.loads(x) for x in lines]


def viol(prop, kind, t, v, expected, observed):
    return {"kind": kind, "props": [prop], "op": {"name": kind, "type_name": show(t), "value": v},
            "expected": expected, "observed": observed, "history": [], "signature": "%s:%s" % (kind, t["name"])}


def run(ctx):
    gtirb = ctx.gtirb
    from gtirb.serialization import Serialization
    ser = Serialization()
    ir, attached, foreign = make_ir(gtirb)
    rng = random.Random(ctx.seed + 11)
    gen = Gen(rng, attached, foreign)
    inputs = systematic(gen)
    nrand = 1500 if ctx.quick() else 20000
    for _ in range(nrand):
        t = gen.rand_type(rng.randint(1, 3 if ctx.quick() else 5))
        inputs.append((t, gen.rand_value(t, rng.choice([1, 2, 3]))))
    wd = workdir("gtirbverif-aux-")
    p1 = os.path.join(wd, "in.ndjson")
    with open(p1, "w") as fh:
        for t, v in inputs:
            fh.write(json.dumps({"t": t, "v": v}) + "\n")
    ctx.log("AuxWire: %d (type, value) inputs; TLC computes Enc and checks Dec(Enc(v)) = v" % len(inputs))
    res, st1 = tlc_pass(p1, "enc", len(inputs))
    spec_bytes = {}
    mine = lambda v: ctx.prop in v["props"]  # noqa
    for kind, i, x in res:
        if kind == "bytes":
            spec_bytes[i] = bytes(x)
        else:
            v = viol("C07", "spec-roundtrip", inputs[i][0], inputs[i][1], "Dec(Enc(v)) = v in the specification", x)
            if mine(v):
                ctx.violations.append(v)
    if len(spec_bytes) != len(inputs):
        raise MachineryFailure("TLC printed %d encodings for %d inputs" % (len(spec_bytes), len(inputs)))
    # ---- the implementation legs
    p2 = os.path.join(wd, "judge.ndjson")
    meta = []
    java = Java() if ctx.prop == "C08" else None
    java_stats = {"requests": 0, "supported": 0, "errors": 0, "python_decoded_java_bytes": 0}
    recs_out = []
    if True:
        for i, (t, v) in enumerate(inputs):
            name = show(t)
            conv = Conv(gtirb, ir)
            rec = {"t": t, "v": v, "enc": [], "dec": []}
            notes = {}
            try:
                pv = conv.to_py(t, v)
                out = io.BytesIO()
                ser.encode(out, pv, name)
                pb = out.getvalue()
                rec["enc"].append({"who": "python", "bytes": list(pb)})
            except (Exception, _Timeout) as e:  # encoder refused a value of the type
                pb = None
                notes["encode_exc"] = "%s: %s" % (type(e).__name__, e)
            for who, b in (("python-decodes-python", pb), ("python-decodes-spec", spec_bytes[i])):
                if b is None:
                    continue
                try:
                    stream = io.BytesIO(b)
                    with time_limit(3):
                        dv = ser.decode(stream, name, ir.get_by_uuid)
                    rec["dec"].append({"who": who, "v": conv.to_j(t, dv)})
                    _scribble(dv)      # a decoded value is the caller's: editing it must not reach any later decode
                except Exception as e:
                    notes[who] = "%s: %s" % (type(e).__name__, e)
            # consumption: decoding a stream with trailing bytes must leave exactly those bytes
            try:
                stream = io.BytesIO(spec_bytes[i] + b"\xEE\xEE\xEE")
                tree = Serialization._parse_type(name)
                with time_limit(3):
                    ser._decode_tree(stream, tree, ir.get_by_uuid)
                if stream.read() != b"\xEE\xEE\xEE":
                    notes["consumption"] = "decoder did not consume exactly the encoder's bytes"
            except Exception as e:
                notes["consumption"] = "%s: %s" % (type(e).__name__, e)
            att = {tuple(a) for a in attached}
            wrong_nodes = [u for u in conv.nodes_seen if tuple(u) not in att] + [u for u in conv.plain_seen if tuple(u) in att]
            if wrong_nodes:
                notes["node_resolution"] = wrong_nodes[:3]
            meta.append(notes)
            recs_out.append((rec, pb))
    # C01 for AuxData values: every input as a table of one IR, the IR saved and loaded, every table read back
    try:
        mod = next(iter(ir.modules))
        kept = []
        for i, (t, v) in enumerate(inputs):
            if recs_out[i][1] is not None:
                mod.aux_data["t%d" % i] = gtirb.AuxData(Conv(gtirb, ir).to_py(t, v), show(t))
                kept.append(i)
        buf = io.BytesIO()
        ir.save_protobuf_file(buf)
        ir_l = gtirb.IR.load_protobuf_file(io.BytesIO(buf.getvalue()))
        mod_l = next(iter(ir_l.modules))
        for i in kept:
            t, v = inputs[i]
            try:
                tab = mod_l.aux_data["t%d" % i]
                if tab.type_name != show(t):
                    raise ValueError("type name %r came back as %r" % (show(t), tab.type_name))
                with time_limit(3):
                    dv = tab.data
                recs_out[i][0]["dec"].append({"who": "python-reloads-file", "v": Conv(gtirb, ir_l).to_j(t, dv)})
            except Exception as e:
                meta[i]["python-reloads-file"] = "%s: %s" % (type(e).__name__, e)
        for i in kept:
            del mod.aux_data["t%d" % i]
    except Exception as e:
        meta[0]["python-reloads-file"] = "whole file: %s: %s" % (type(e).__name__, e)
    if java is not None and java.ok:
        reqs, owner = [], []
        for i, (t, v) in enumerate(inputs):
            name = show(t)
            if recs_out[i][1] is not None:
                reqs.append((name, recs_out[i][1]))
                owner.append((i, "java-decodes-python"))
            reqs.append((name, spec_bytes[i]))
            owner.append((i, "java-decodes-spec"))
        replies = java.run(reqs)
        java_stats["requests"] = len(reqs)
        for (i, who), rep in zip(owner, replies):
            t, v = inputs[i]
            rec = recs_out[i][0]
            if rep.get("unsupported"):
                continue
            java_stats["supported"] += 1
            if not rep.get("ok") or not rep.get("full"):
                java_stats["errors"] += 1
                meta[i][who] = "java: %s" % (rep.get("error") or "stream not fully consumed")
                continue
            rec["dec"].append({"who": who, "v": rep["value"]})
            if who == "java-decodes-python":
                jb = bytes(rep["reenc"])
                rec["enc"].append({"who": "java", "bytes": list(jb)})
                try:
                    conv = Conv(gtirb, ir)
                    with time_limit(3):
                        dv = ser.decode(io.BytesIO(jb), show(t), ir.get_by_uuid)
                    rec["dec"].append({"who": "python-decodes-java", "v": conv.to_j(t, dv)})
                    java_stats["python_decoded_java_bytes"] += 1
                except (Exception, _Timeout) as e:
                    meta[i]["python-decodes-java"] = "%s: %s" % (type(e).__name__, e)
    elif java is not None:
        java_stats["skipped"] = java.why
    with open(p2, "w") as fh:
        for rec, _ in recs_out:
            fh.write(json.dumps(rec) + "\n")
    res2, st2 = tlc_pass(p2, "judge", len(inputs))
    ctx.states += st1 + st2
    ctx.transitions += 2 * len(inputs)
    nviol = 0
    for kind, i, x in res2:
        if kind != "bad":
            continue
        t, v = inputs[i]
        if x["what"] == "bytes":
            vv = viol("C08", "wrong-bytes", t, v, x.get("expected"), {"who": x["who"], "python_bytes": meta[i]})
            vv["observed"] = [e["bytes"] for e in json.loads(open(p2).read().splitlines()[i])["enc"]]
        else:
            vv = viol({"python-decodes-python": "C07", "python-reloads-file": "C01"}.get(x["who"], "C08"), "wrong-value", t, v, v, {"who": x["who"]})
            vv["signature"] += "/" + x["who"]
        nviol += 1
        if mine(vv):
            ctx.violations.append(vv)
        else:
            ctx.others[vv["signature"]] = ctx.others.get(vv["signature"], 0) + 1
    for i, notes in enumerate(meta):
        t, v = inputs[i]
        for k, msg in notes.items():
            prop = {"encode_exc": "C07", "python-decodes-python": "C07", "python-decodes-spec": "C08",
                    "consumption": "C07", "node_resolution": "C07", "python-reloads-file": "C01"}.get(k, "C08")
            vv = viol(prop, k, t, v, "no exception / exact consumption / Node iff attached", msg)
            if mine(vv):
                ctx.violations.append(vv)
            else:
                ctx.others[vv["signature"]] = ctx.others.get(vv["signature"], 0) + 1
    ctx.evaluations += len(inputs)
    ctx.traces += len(inputs)
    ctx.exhaustive = False
    kinds = {}
    for t, _ in inputs:
        kinds[t["name"]] = kinds.get(t["name"], 0) + 1
    ctx.stages.append({"stage": "auxwire", "inputs": len(inputs), "systematic": len(inputs) - nrand, "random": nrand,
                       "top_level_type_counts": kinds, "tlc_rejections": nviol, "java_leg": java_stats,
                       "legs": ["python encode vs spec Enc (bytes)", "python decode of python bytes",
                                "python decode of spec bytes (independent writer)", "stream consumption",
                                "Node vs plain UUID resolution"]})
    big = max(inputs, key=lambda tv: len(json.dumps(tv[1])))
    ctx.samples.append({"type": show(inputs[0][0]), "value": inputs[0][1], "spec_bytes": list(spec_bytes[0])})
    ctx.samples.append({"type": show(big[0])[:300], "value": json.dumps(big[1])[:300]})
    ctx.log("AuxWire: %d inputs judged, %d rejections by TLC, %d harness notes" % (
        len(inputs), nviol, sum(1 for m in meta if m)))
    ctx.assumptions += ["set elements / mapping keys are hashable Python values (leaves and tuples of leaves): "
                        "set<sequence<..>> has no Python representation (DESIGN section 4 rule 4)",
                        "struct is used only to observe/construct float bit patterns"]
    return "model_checking", ("(type tree, value) pairs: every leaf type x boundary values, every container over every "
                              "leaf with 0-2 elements, every variant alternative, plus seeded random nestings; TLC "
                              "evaluates Enc/Dec of AuxWire.tla on each and judges the codec's bytes and decoded values")
