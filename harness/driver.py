"""code -> spec with action matching (spec/GtirbTrace.tla): a seeded driver executes long random
histories on real objects inside the specification's scope, logs operation / result / projected state
per step, and TLC replays every trace through the actions of Gtirb.tla."""
import json
import os
import random
import re

from . import configs, tlc
from .build import MachineryFailure, workdir
from .universe import Env, NONE, NONEIDX, Unprojectable

SET_RES = {"set.or", "set.ror", "set.and", "set.rand", "set.sub", "set.rsub", "set.xor", "set.rxor"}
POST_KEYS = ["mods", "kids", "par", "cache", "addr", "isz", "off", "bsz", "bytes", "sname", "pay", "entry", "symx",
             "cfg", "tags", "scal"]

CONFIGS = {
    "TraceTree": dict(
        IRs={"i1", "i2"}, Modules={"m1", "m2", "m3"}, Sections={"s1", "s2", "s3"}, Intervals={"v1", "v2", "v3"},
        CodeBlocks={"c1", "c2"}, DataBlocks={"d1", "d2"}, Proxies={"p1", "p2"}, Symbols={"y1", "y2", "y3"},
        Names={"a", "b", "EMPTY"}, Name0="a", Pays={"#0", "#7"}, ArgMax=2, ListIdx={-2, -1, 0, 1, 2},
        Families={"parent", "set", "setq", "list", "listq", "sym", "entry", "reload"},
        Attach0=[("m1", "i1"), ("m2", "i1"), ("m3", "i2"), ("s1", "m1"), ("s2", "m2"), ("s3", "m3"), ("v1", "s1"),
                 ("v2", "s2"), ("v3", "s3"), ("c1", "v1"), ("d1", "v1"), ("c2", "v2"), ("d2", "v3"), ("p1", "m1"),
                 ("p2", "m3"), ("y1", "m1"), ("y2", "m2"), ("y3", "m3")],
    ),
    "TraceData": dict(
        IRs={"i1"}, Modules={"m1", "m2"}, Sections={"s1", "s2"}, Intervals={"v1", "v2", "v3"},
        CodeBlocks={"c1", "c2"}, DataBlocks={"d1"}, Proxies={"p1"}, Symbols={"y1", "y2"}, Exprs={"e1", "e2"},
        ExprKind={"e1": "ac", "e2": "aa"}, ExprSym={"e1": "y1", "e2": "y1"}, ExprSym2={"e1": "none", "e2": "y2"},
        Addrs={0, 3, 8}, ISizes={0, 2, 5}, Offs={0, 1, 4}, BSizes={0, 1, 3}, ByteVals={0, 9}, MaxBytes=3,
        Labels={"nolabel", "L000", "L111", "L210"}, Tags={0, 1, 2}, Names={"a", "NONASCII"}, Name0="a", Pays={"#0"},
        ArgMax=2, ListIdx={0, 1},
        Families={"geom", "bytes", "symx", "cfg", "tags", "scal", "sym", "entry", "parent", "reload"},
        Attach0=[("m1", "i1"), ("m2", "i1"), ("s1", "m1"), ("s2", "m2"), ("v1", "s1"), ("v2", "s1"), ("v3", "s2"),
                 ("c1", "v1"), ("d1", "v1"), ("c2", "v3"), ("p1", "m1"), ("y1", "m1"), ("y2", "m1")],
    ),
}


def consts_of(name):
    c = configs.get(name, CONFIGS[name])
    c["EmitKeys"] = set(POST_KEYS)
    if name == "TraceData":
        c["ScalDom"] = dict(c["ScalDom"], version={"CUR", "NEXT"})
    return c


class Driver:
    def __init__(self, env, consts, rng):
        self.env, self.c, self.r = env, consts, rng
        self.fam = {f[0] for f in consts["Families"]}
        c = consts
        self.rels = [("sec", "Modules", "Sections"), ("sym", "Modules", "Symbols"), ("prx", "Modules", "Proxies"),
                     ("biv", "Sections", "Intervals"), ("blk", "Intervals", None)]
        self.blocks = sorted(c["CodeBlocks"] | c["DataBlocks"])

    def pick(self, xs):
        xs = sorted(xs, key=str)
        return self.r.choice(xs) if xs else None

    def subset(self, xs, lo=0):
        xs = sorted(xs)
        k = self.r.randint(lo, min(self.c["ArgMax"], len(xs)))
        return sorted(self.r.sample(xs, k))

    def children(self, rel):
        for r, _, ck in self.rels:
            if r == rel:
                return self.blocks if ck is None else sorted(self.c[ck])

    def gen(self):
        """one random operation inside the specification's scope, or None"""
        r, c, env = self.r, self.c, self.env
        kinds = []
        if "parent" in self.fam:
            kinds += ["setparent"] * 3
        if "set" in self.fam:
            kinds += ["set"] * 4
        if "setq" in self.fam:
            kinds += ["setq"]
        if "list" in self.fam:
            kinds += ["list"] * 4
        if "listq" in self.fam:
            kinds += ["listq"]
        for f, w in (("geom", 3), ("bytes", 2), ("sym", 2), ("entry", 1), ("tags", 1), ("scal", 2), ("symx", 3),
                     ("cfg", 3), ("reload", 1)):
            if f in self.fam:
                kinds += [f] * w
        k = r.choice(kinds)
        if k == "setparent":
            rel, pk, ck = r.choice(self.rels + [("mod", "IRs", "Modules")])
            ch = self.pick(self.blocks if ck is None else c[ck])
            if ch is None or not c[pk]:
                return None
            return {"name": "setparent", "r": rel, "c": ch, "p": r.choice(sorted(c[pk]) + [NONE])}
        if k in ("set", "setq"):
            rel, pk, ck = r.choice(self.rels)
            kids = self.children(rel)
            if not c[pk] or not kids:
                return None
            p = self.pick(c[pk])
            if k == "setq":
                m = r.choice(sorted(SET_RES) + ["set.eq", "set.ne", "set.le", "set.lt", "set.ge", "set.gt", "set.isdisjoint"])
                return {"name": m, "r": rel, "p": p, "a": self.subset(kids)}
            m = r.choice(["add", "add", "discard", "remove", "pop", "clear", "update", "update2", "ior", "iand", "isub", "ixor"])
            if m in ("add", "discard", "remove"):
                return {"name": "set." + m, "r": rel, "p": p, "c": self.pick(kids)}
            if m in ("pop", "clear"):
                return {"name": "set." + m, "r": rel, "p": p}
            if m == "update":
                return {"name": "set.update", "r": rel, "p": p, "a": self.subset(kids), "b": [], "n": 1}
            if m == "update2":
                a = self.subset(kids, 1)
                rest = [x for x in kids if x not in a]
                if not a or not rest:
                    return None
                b = sorted(r.sample(rest, r.randint(1, min(c["ArgMax"], len(rest)))))
                return {"name": "set.update", "r": rel, "p": p, "a": a, "b": b, "n": 2}
            return {"name": "set." + m, "r": rel, "p": p, "a": self.subset(kids)}
        if k in ("list", "listq"):
            ir = self.pick(c["IRs"])
            L = [env.nid(m) for m in env.obj[ir].modules]
            idx = sorted(c["ListIdx"])
            mods = sorted(c["Modules"])
            if k == "listq":
                m = r.choice(["get", "slice", "index", "count", "contains", "len"])
                if m == "get":
                    return {"name": "list.get", "ir": ir, "i": r.choice(idx)}
                if m == "slice":
                    return {"name": "list.slice", "ir": ir, "lo": r.choice(idx + [NONEIDX]), "hi": r.choice(idx + [NONEIDX]),
                            "st": r.choice([1, 2, -1])}
                if m == "len":
                    return {"name": "list.len", "ir": ir}
                return {"name": "list." + m, "ir": ir, "m": r.choice(mods)}
            m = r.choice(["insert", "append", "remove", "setitem", "extend", "iadd", "setslice", "delitem", "pop", "popdef",
                          "delslice", "clear", "reverse"])
            if m in ("insert",):
                return {"name": "list.insert", "ir": ir, "i": r.choice(idx), "m": r.choice(mods)}
            if m in ("append", "remove"):
                return {"name": "list." + m, "ir": ir, "m": r.choice(mods)}
            if m == "setitem":
                i, mm = r.choice(idx), r.choice(mods)
                n = len(L)
                if -n <= i < n and mm in L and L[i] != mm:
                    return None        # rule 4: the value stays elsewhere in the same list
                return {"name": "list.setitem", "ir": ir, "i": i, "m": mm}
            if m in ("extend", "iadd"):
                return {"name": "list." + m, "ir": ir, "ms": r.sample(mods, r.randint(0, min(c["ArgMax"], len(mods))))}
            if m == "setslice":
                lo, hi, st = r.choice(idx + [NONEIDX]), r.choice(idx + [NONEIDX]), r.choice([1, 1, 2, -1])
                f = lambda x: None if x == NONEIDX else x  # noqa
                region = set(L[slice(f(lo), f(hi), None if st == 1 else st)])
                kept = set(L) - region
                cand = [x for x in mods if x not in kept]
                ms = r.sample(cand, r.randint(0, min(c["ArgMax"], len(cand))))
                return {"name": "list.setslice", "ir": ir, "lo": lo, "hi": hi, "st": st, "ms": ms}
            if m == "delitem":
                return {"name": "list.delitem", "ir": ir, "i": r.choice(idx)}
            if m == "pop":
                return {"name": "list.pop", "ir": ir, "i": r.choice(idx)}
            if m == "popdef":
                return {"name": "list.pop", "ir": ir, "i": NONEIDX}
            if m == "delslice":
                return {"name": "list.delslice", "ir": ir, "lo": r.choice(idx + [NONEIDX]), "hi": r.choice(idx + [NONEIDX]),
                        "st": r.choice([1, 2, -1])}
            return {"name": "list." + m, "ir": ir}
        if k == "geom":
            m = r.choice(["addr", "isize", "off", "bsize"])
            if m == "addr" and c["Intervals"]:
                return {"name": "attr.addr", "v": self.pick(c["Intervals"]), "a": r.choice(sorted(c["Addrs"]) + [-1])}
            if m == "isize" and c["Intervals"]:
                return {"name": "attr.isize", "v": self.pick(c["Intervals"]), "z": self.pick(c["ISizes"])}
            if m == "off" and self.blocks:
                return {"name": "attr.off", "b": self.pick(self.blocks), "o": self.pick(c["Offs"])}
            if m == "bsize" and self.blocks:
                return {"name": "attr.bsize", "b": self.pick(self.blocks), "z": self.pick(c["BSizes"])}
            return None
        if k == "bytes":
            v = self.pick(c["Intervals"])
            size = env.obj[v].size
            if r.random() < 0.5:
                n = r.randint(0, min(c["MaxBytes"], size))
                return {"name": "attr.bytes", "v": v, "bs": [self.pick(c["ByteVals"]) for _ in range(n)]}
            kk = r.randint(0, c["MaxBytes"])
            if kk > size:
                return None
            return {"name": "attr.initsize", "v": v, "k": kk}
        if k == "sym":
            y = self.pick(c["Symbols"])
            if r.random() < 0.4:
                return {"name": "sym.name", "y": y, "nm": self.pick(c["Names"])}
            refs = self.blocks + sorted(c["Proxies"])
            return {"name": "sym.payload", "y": y, "pv": r.choice(refs + sorted(c["Pays"]) + [NONE])}
        if k == "entry":
            return {"name": "mod.entry", "m": self.pick(c["Modules"]), "c": r.choice(sorted(c["CodeBlocks"]) + [NONE])}
        if k == "tags":
            holders = sorted(c["IRs"] | c["Modules"] | c["Sections"] | c["Exprs"])
            h = r.choice(holders)
            t = self.pick(c["Tags"])
            if h in c["Sections"] and t >= c["NFlags"]:
                return None
            return {"name": r.choice(["tag.add", "tag.del"]), "h": h, "t": t}
        if k == "scal":
            holders = sorted(c["Modules"] | c["Sections"] | c["Symbols"] | c["CodeBlocks"] | c["Exprs"])
            h = r.choice(holders)
            if r.random() < 0.04 and len(c["ScalDom"].get("version", ())) > 1:
                h, f = self.pick(c["IRs"]), "version"
            elif h in c["Modules"]:
                f = r.choice(["name", "binary_path", "isa", "file_format", "byte_order", "preferred_addr", "rebase_delta"])
            elif h in c["Sections"]:
                f = "name"
            elif h in c["Symbols"]:
                f = "at_end"
            elif h in c["CodeBlocks"]:
                f = "decode_mode"
            else:
                f = "xoffset" if c["ExprKind"].get(h, "ac") == "ac" or r.random() < 0.5 else "xscale"
            return {"name": "scal", "h": h, "f": f, "t": self.pick(c["ScalDom"][f])}
        if k == "symx":
            v = self.pick(c["Intervals"])
            if not c["Exprs"]:
                return None
            m = r.choice(["set", "set", "setdefault", "del", "pop", "get", "contains", "popitem", "clear", "len", "update", "assign"])
            off, e = self.pick(c["Offs"]), self.pick(c["Exprs"])
            if m in ("set", "setdefault"):
                return {"name": "symx." + m, "v": v, "k": off, "e": e}
            if m in ("del", "pop", "get", "contains"):
                return {"name": "symx." + m, "v": v, "k": off}
            if m in ("popitem", "clear", "len"):
                return {"name": "symx." + m, "v": v}
            offs = r.sample(sorted(c["Offs"]), r.randint(0, min(c["ArgMax"], len(c["Offs"]))))
            return {"name": "symx." + m, "v": v, "n": [[o, self.pick(c["Exprs"])] for o in sorted(offs)]}
        if k == "cfg":
            ir = self.pick(c["IRs"])
            nodes = sorted(c["CodeBlocks"] | c["Proxies"])
            edge = lambda: [r.choice(nodes), r.choice(nodes), self.pick(c["Labels"])]  # noqa
            m = r.choice(["add", "add", "discard", "remove", "contains", "pop", "clear", "update", "ior", "iand", "isub", "ixor"])
            if m in ("add", "discard", "remove", "contains"):
                if m != "add" and r.random() < 0.6:
                    cur = env._p_cfg()[ir]
                    if cur:
                        return {"name": "cfg." + m, "ir": ir, "e": r.choice(cur)}
                return {"name": "cfg." + m, "ir": ir, "e": edge()}
            if m in ("pop", "clear"):
                return {"name": "cfg." + m, "ir": ir}
            es = []
            for _ in range(r.randint(0, c["ArgMax"])):
                e = edge()
                if e not in es:
                    es.append(e)
            return {"name": "cfg." + m, "ir": ir, "a": es}
        if k == "reload":
            if r.random() < 0.75:
                return None
            return {"name": "reload", "ir": self.pick(c["IRs"])}
        return None


def props_of(op_name):
    """which properties a step of this kind speaks about when TLC rejects it"""
    if op_name == "setparent" or op_name.startswith(("set.", "list.")):
        return ["C03", "C04", "C16"]
    if op_name.startswith("sym."):
        return ["C10"]
    if op_name.startswith("cfg."):
        return ["C11"]
    if op_name.startswith("symx."):
        return ["C16", "C13"]
    if op_name in ("attr.bytes", "attr.initsize", "attr.isize"):
        return ["C19"]
    if op_name == "reload":
        return ["C01", "C02", "C09"]
    return ["C04"]


def record_traces(ctx, name, consts, n_traces, length, base=0, rec=None):
    """rec: a judge.Recorder -- after about every fourth step a batch of lookups is answered by the real objects and
    kept for TLC's judgement (lookups in the middle of long random histories of a larger universe)"""
    rng = random.Random(ctx.seed + 77)
    lrng = random.Random(ctx.seed + 78)
    path = os.path.join(workdir("gtirbverif-trace-"), "traces.ndjson")
    traces = []
    with open(path, "w") as fh:
        for t in range(n_traces):
            env = Env(ctx.gtirb, consts, base=base)
            drv = Driver(env, consts, rng)
            steps = []
            while len(steps) < length:
                op = drv.gen()
                if op is None:
                    continue
                try:
                    obs = env.step(op)
                    post = env.project(POST_KEYS)
                except Unprojectable as ex:
                    steps.append({"op": dict(op, res={"exc": "Unprojectable"}), "post": {}, "note": str(ex)})
                    break
                logged = dict(op)
                if isinstance(obs, dict) and "exc" in obs:
                    logged["res"] = {"exc": obs["exc"]}
                elif op["name"] in SET_RES and isinstance(obs, list):
                    logged["res_set"] = obs
                else:
                    logged["res"] = obs
                steps.append({"op": logged, "post": post})
                if rec is not None and lrng.random() < 0.25:
                    rec.record(env)
                if op["name"] == "reload" and logged.get("res") != NONE:
                    break   # save+load of an IR that is not self-contained: outside the spec's scope from here
            traces.append(steps)
            fh.write(json.dumps({"steps": steps}, separators=(",", ":")) + "\n")
    return path, traces


_MARK = re.compile(r'^<<"(ARGS|RES|OK)", (\d+), (\d+)>>')


def validate(ctx, name, consts, path, traces, chunks=8):
    """TLC replays every trace through Gtirb.tla's actions; returns per-trace verdicts"""
    import concurrent.futures as cf
    lines = open(path).read().splitlines()
    chunks = max(1, min(chunks, len(lines)))
    index = [list(range(i, len(lines), chunks)) for i in range(chunks)]
    mod, files, cfg = configs.render(name + "_trace", consts=consts, invariants=[], view=False, extends="GtirbTrace",
                                     spec="TSpec", postcondition="Done", gate="TraceGate")

    def run_part(ixs):
        wd = workdir("gtirbverif-tracein-")
        p = os.path.join(wd, "part.ndjson")
        with open(p, "w") as fh:
            fh.write("\n".join(lines[i] for i in ixs) + "\n")
        r = tlc.run(mod, cfg, extra_files=files, workers=1, env_extra={"TRACE_FILE": p}, timeout=3000, want_records=False, heap="2g")
        marks = {}
        seen_done = False
        last_args = None
        for line in open(r.stdout_path):
            m = _MARK.match(line)
            if m:
                k, tid, l = m.group(1), ixs[int(m.group(2)) - 1], int(m.group(3))
                marks.setdefault(tid, {"ARGS": 0, "RES": 0, "OK": 0})
                marks[tid][k] = max(marks[tid][k], l)
                if k == "ARGS":
                    last_args = (tid, l)
            elif line.startswith('<<"TRACES"'):
                seen_done = True
        return r, marks, seen_done, last_args

    def one(ixs):
        """validate one part; a logged result of another *type* than the one the specification prescribes
        (None where an exception is required, ...) makes TLC stop with 'Attempted to check equality / compare':
        that trace is rejected at that step (ARGS matched, RES did not) and the others are validated again"""
        ixs = list(ixs)
        out, gen = {}, 0
        for _ in range(len(ixs) + 1):
            if not ixs:
                break
            r, marks, seen_done, last_args = run_part(ixs)
            gen += r.generated
            err = (r.errors or [r.violation])[0] if (r.errors or r.violation) else None
            if err is None:
                if not seen_done:
                    raise MachineryFailure("GtirbTrace %s: no completion marker" % name)
                out.update(marks)
                return out, gen
            if last_args is not None and ("Attempted to" in err) and marks[last_args[0]]["RES"] < last_args[1]:
                tid, l = last_args
                out[tid] = {"ARGS": l, "RES": l - 1, "OK": l - 1, "type_mismatch": True}
                ixs.remove(tid)
                continue
            raise MachineryFailure("GtirbTrace %s: %s" % (name, err[:1500]))
        return out, gen

    marks, gen = {}, 0
    with cf.ThreadPoolExecutor(max_workers=chunks) as ex:
        for m, g in ex.map(one, index):
            marks.update(m)
            gen += g
    return marks, gen


def stage_traces(ctx, name, *, n_traces, length, base=0):
    from . import stages
    if stages.WARM:
        return
    consts = consts_of(name)
    rec = None
    if consts["Addrs"] or consts["Symbols"]:
        from . import judge
        rec = judge.Recorder(consts, seed=ctx.seed + 5, per_step=6)
    path, traces = record_traces(ctx, name, consts, n_traces, length, base, rec)
    if rec is not None:
        stages.judge_recorded(ctx, name, consts, rec)
    # binding demonstration: a copy of the first trace with one logged back pointer corrupted must be
    # rejected by TLC exactly there (otherwise the trace specification constrains nothing: exit 2)
    import copy
    demo_at = None
    if traces and len(traces[0]) >= 6 and traces[0][4]["post"].get("par"):
        bad = copy.deepcopy(traces[0])
        par = bad[4]["post"]["par"]
        victim = sorted(par)[0]
        par[victim] = "none" if par[victim] != "none" else sorted(consts["IRs"] | consts["Modules"])[0]
        with open(path, "a") as fh:
            fh.write(json.dumps({"steps": bad}, separators=(",", ":")) + "\n")
        demo_at = len(traces)
    marks, gen = validate(ctx, name, consts, path, traces)
    if demo_at is not None and marks.get(0, {"OK": 0})["OK"] < 5:
        demo_at = None      # the uncorrupted original is itself rejected before that step (reported below): no demonstration
    if demo_at is not None:
        mk = marks.get(demo_at, {"OK": 0, "RES": 0})
        if mk["OK"] != 4 or mk["RES"] < 5:
            raise MachineryFailure("GtirbTrace accepted a corrupted trace (matched %r): the binding is vacuous" % (mk,))
    ctx.transitions += gen
    accepted = out_of_scope = rejected = steps_ok = 0
    ops = {}
    scope_ops = {}
    for tid, steps in enumerate(traces):
        mk = marks.get(tid, {"ARGS": 0, "RES": 0, "OK": 0})
        steps_ok += mk["OK"]
        for s in steps[:mk["OK"]]:
            ops[s["op"]["name"]] = ops.get(s["op"]["name"], 0) + 1
        if mk["OK"] == len(steps):
            accepted += 1
            continue
        k = mk["OK"]            # 0-based index of the first step that was not accepted
        bad = steps[k]
        if mk["ARGS"] <= k:
            out_of_scope += 1      # the specification does not offer this operation here (rule 4 / Reload guard)
            nm = bad["op"]["name"]
            scope_ops[nm] = scope_ops.get(nm, 0) + 1
            if os.environ.get("VERIF_DEBUG_TRACE"):
                print("left scope at", json.dumps(bad["op"])[:300])
            continue
        rejected += 1
        kind = "trace-result" if mk["RES"] <= k else "trace-state"
        hist = [{f: v for f, v in s["op"].items() if f not in ("res", "res_set")} for s in steps[:k + 1]]
        from . import stages as _st
        _st._file(ctx, {"kind": kind, "props": props_of(bad["op"]["name"]), "op": hist[-1],
                               "expected": "a step of Gtirb.tla with these arguments" + (" and this result" if kind == "trace-result" else ", this result and this post-state"),
                               "observed": {"res": bad["op"].get("res", bad["op"].get("res_set")), "post": bad["post"], "note": bad.get("note")},
                        "history": hist, "config": name, "base": str(base), "trace_config": name,
                        "signature": "%s:%s" % (kind, bad["op"]["name"])})
    ctx.traces += accepted
    ctx.evaluations += steps_ok
    ctx.stages.append({"stage": "trace-validation", "spec": "GtirbTrace.tla", "config": name, "traces": len(traces),
                       "steps_per_trace": length, "accepted": accepted, "rejected": rejected,
                       "corrupted_copy_rejected_at_the_corrupted_step": demo_at is not None,
                       "left_scope_early": out_of_scope, "left_scope_at": scope_ops, "steps_matched_by_tlc": steps_ok, "ops": ops})
    if traces and len(ctx.samples) < 6:
        ctx.samples.append({"config": name, "trace": [s["op"] for s in traces[0][:10]]})
    ctx.log("traces %s: %d traces x %d steps; %d accepted, %d rejected, %d left the scope early; %d steps matched" % (
        name, len(traces), length, accepted, rejected, out_of_scope, steps_ok))
