"""Build an importable ``gtirb`` package from /repo's *working tree*.

The pinned test-suite imports the wheel in /venv/site-packages, never
/repo/python/gtirb, and there is no protoc in the sandbox.  Every check
therefore builds its own package:

  <tmp>/pkg/gtirb/*.py              copied from /repo/python/gtirb
  <tmp>/pkg/gtirb/proto/*_pb2.py    generated from /repo/proto/*.proto (protogen.py)
  <tmp>/pkg/gtirb/version.py        rendered from /repo/version.txt + version.py.in

and asserts at import time that ``gtirb.__file__`` lies inside it.
"""
import atexit
import os
import re
import shutil
import sys
import tempfile

REPO = os.environ.get("VERIF_REPO", "/repo")
GUARD = "GTIRB_VERIF_TRACE"


class MachineryFailure(Exception):
    """Raised when the framework itself cannot run (exit code 2)."""


_workdirs = []


def _cleanup():
    for d in _workdirs:
        shutil.rmtree(d, ignore_errors=True)


atexit.register(_cleanup)


def workdir(prefix="gtirbverif-"):
    """A scratch directory outside /repo and /verif, removed at exit."""
    d = tempfile.mkdtemp(prefix=prefix, dir=os.environ.get("VERIF_TMP", "/tmp"))
    if not os.environ.get("VERIF_KEEP"):
        _workdirs.append(d)
    return d


def read_version():
    vals = {}
    for line in open(os.path.join(REPO, "version.txt")):
        parts = line.split()
        if len(parts) == 2:
            vals[parts[0]] = parts[1]
    return vals


def build_package(dest=None):
    """Returns (pkg_root, file_descriptor_protos)."""
    from . import protogen

    root = dest or os.path.join(workdir(), "pkg")
    pkg = os.path.join(root, "gtirb")
    src = os.path.join(REPO, "python", "gtirb")
    if not os.path.isdir(src):
        raise MachineryFailure("no python/gtirb under %s" % REPO)
    os.makedirs(os.path.join(pkg, "proto"), exist_ok=True)
    for name in os.listdir(src):
        if name.endswith(".py") or name == "py.typed":
            shutil.copy(os.path.join(src, name), os.path.join(pkg, name))
    shutil.copy(
        os.path.join(src, "proto", "__init__.py"),
        os.path.join(pkg, "proto", "__init__.py"),
    )
    try:
        fds = protogen.generate(
            os.path.join(REPO, "proto"), os.path.join(pkg, "proto")
        )
    except Exception as e:  # a .proto the mini-parser cannot read
        raise MachineryFailure("protogen failed: %r" % (e,))
    v = read_version()
    tmpl = open(os.path.join(REPO, "python", "version.py.in")).read()
    subst = {
        "PROJECT_VERSION_MAJOR": v["VERSION_MAJOR"],
        "PROJECT_VERSION_MINOR": v["VERSION_MINOR"],
        "PROJECT_VERSION_PATCH": v["VERSION_PATCH"],
        "GTIRB_PYTHON_DEV_SUFFIX": "",
        "GTIRB_PROTOBUF_VERSION": v["VERSION_PROTOBUF"],
    }
    text = re.sub(r"@(\w+)@", lambda m: subst[m.group(1)], tmpl)
    with open(os.path.join(pkg, "version.py"), "w") as f:
        f.write(text)
    return root, fds


def activate(root):
    """Put the built package first on sys.path and prove it is the one used."""
    for k in list(sys.modules):
        if k == "gtirb" or k.startswith("gtirb."):
            raise MachineryFailure("gtirb imported before activate(): %s" % k)
    sys.path.insert(0, root)
    import gtirb  # noqa

    here = os.path.realpath(gtirb.__file__)
    if not here.startswith(os.path.realpath(root) + os.sep):
        raise MachineryFailure(
            "gtirb imported from %s, not from the build %s" % (here, root)
        )
    return gtirb


def build_and_activate():
    root, fds = build_package()
    return activate(root), root, fds


def backend():
    from google.protobuf.internal import api_implementation

    return api_implementation.Type()
