"""Shared plumbing of the checks: stages, evidence, known findings, exit codes."""
import concurrent.futures as cf
import json
import os
import sys
import time

from . import configs, tlc
from .build import MachineryFailure

VERIF = os.path.dirname(os.path.dirname(os.path.abspath(__file__)))
EVID = os.environ.get("VERIF_EVID") or os.path.join(VERIF, "evidence")
KNOWN = os.path.join(VERIF, "known_findings.json")
BASES = {"0": 0, "2^32-3": 2 ** 32 - 3, "2^63": 2 ** 63, "2^64-40": 2 ** 64 - 40}
TOP = 2 ** 64 - 2     # an interval here is still a legal uint64 address; its blocks' addresses pass 2^64


class Ctx:
    def __init__(self, prop, tier, seed):
        self.prop = prop
        self.tier = tier
        self.seed = seed
        self.t0 = time.time()
        self.states = 0
        self.transitions = 0
        self.traces = 0
        self.evaluations = 0
        self.samples = []
        self.stages = []
        self.violations = []  # replay.Violation-like dicts for this property
        self.others = {}  # divergences that speak about other properties: signature -> count
        self.assumptions = []
        self.exhaustive = True
        self.distinct = 0     # distinct non-trivial cases (levels that need the count)
        self.gtirb = None
        self.notes = {}

    def quick(self):
        return self.tier == "quick"

    def log(self, *a):
        print("[%s %6.1fs]" % (self.prop, time.time() - self.t0), *a, flush=True)


def load_known():
    if not os.path.exists(KNOWN):
        return []
    return json.load(open(KNOWN))["findings"]


CACHE = os.path.join(VERIF, ".cache", "graphs")


def _spec_digest(mod_files, cfg):
    import hashlib
    h = hashlib.sha256()
    for f in ("Gtirb.tla",):      # the MC_* modules of the cached runs extend Gtirb.tla only
        h.update(f.encode())
        h.update(open(os.path.join(tlc.SPEC_DIR, f), "rb").read())
    for k in sorted(mod_files):
        h.update(mod_files[k].encode())
    h.update(cfg.encode())
    return h.hexdigest()[:32]


def run_tlc_config(name, *, emit, workers=None, invariants=None, constraints=(), consts=None,
                   simulate=None, depth=None, seed=None, timeout=3000, coverage=False, action_constraints=()):
    """Run TLC on one configuration of Gtirb.tla.

    Transition dumps (emit=True, exhaustive) are a function of the specification alone -- not of
    /repo -- so they are kept in .cache/graphs keyed by the hash of every spec file and the
    rendered configuration; a hit is flagged in the result (from_cache) and in the evidence."""
    import gzip
    mod, files, cfg = configs.render(name, emit=emit, invariants=invariants, constraints=constraints,
                                     consts=consts, action_constraints=action_constraints)
    if workers is None:
        workers = 1 if emit else 8
    cacheable = emit and simulate is None and not os.environ.get("VERIF_NO_CACHE")
    if cacheable:
        key = os.path.join(CACHE, "%s-%s" % (name, _spec_digest(files, cfg)))
        if os.path.exists(key + ".meta.json"):
            meta = json.load(open(key + ".meta.json"))
            r = tlc.TlcResult()
            r.returncode, r.generated, r.distinct, r.depth = meta["returncode"], meta["generated"], meta["distinct"], meta["depth"]
            r.violation, r.wall_s, r.from_cache = meta["violation"], meta["wall_s"], True
            with gzip.open(key + ".jsonl.gz", "rt") as fh:
                r.records = [json.loads(line) for line in fh]
            return r
    r = tlc.run(mod, cfg, extra_files=files, workers=workers, simulate=simulate, depth=depth, seed=seed,
                heap="8g" if (not emit and simulate is None) else "4g",
                timeout=timeout, coverage=coverage, want_records=emit)
    r.from_cache = False
    if cacheable and not r.errors:
        os.makedirs(CACHE, exist_ok=True)
        tmp = "%s.%d.tmp" % (key, os.getpid())      # several checks may fill the cache at the same time
        with gzip.open(tmp, "wt") as fh:
            for rec in r.records:
                fh.write(json.dumps(rec, separators=(",", ":")) + "\n")
        os.replace(tmp, key + ".jsonl.gz")
        with open(tmp, "w") as fh:
            json.dump({"returncode": r.returncode, "generated": r.generated, "distinct": r.distinct,
                       "depth": r.depth, "violation": r.violation, "wall_s": r.wall_s}, fh)
        os.replace(tmp, key + ".meta.json")
    return r


def parallel(fn, items, jobs=6):
    """run fn(item) concurrently (each item spawns a TLC process); results in order"""
    with cf.ThreadPoolExecutor(max_workers=jobs) as ex:
        return list(ex.map(fn, items))


def finish(ctx, level="model_checking", rule=None):
    """Write evidence, print verdict lines, return the exit code."""
    if os.environ.get("VERIF_WARM"):
        return 0
    child = os.environ.get("VERIF_CHILD")
    if child:   # run under the other protobuf runtime on behalf of a parent check: report to it
        with open(child, "w") as fh:
            json.dump({"backend": ctx.notes.get("protobuf_backend"), "states": ctx.states, "transitions": ctx.transitions,
                       "traces": ctx.traces, "evaluations": ctx.evaluations, "violations": ctx.violations,
                       "stages": [{k: v for k, v in s.items() if k in ("stage", "config", "transitions_printed", "behaviours",
                                                                      "corruptions", "outcomes")} for s in ctx.stages]},
                      fh, default=str)
        return 0
    os.makedirs(os.path.join(EVID, "replays"), exist_ok=True)
    known = [k for k in load_known() if k["property"] == ctx.prop and k.get("status") == "open"]
    new, old = [], []
    for v in ctx.violations:
        sig = v["signature"]
        hit = [k for k in known if k["signature"] == sig]
        (old if hit else new).append(v)
    printed = set()
    for v in old:
        if v["signature"] not in printed:
            printed.add(v["signature"])
            print("KNOWN-FINDING: property=%s %s" % (ctx.prop, v["signature"]))
    paths = []
    seen = {}
    for v in new:
        seen.setdefault(v["signature"], []).append(v)
    for i, (sig, vs) in enumerate(sorted(seen.items())):
        path = os.path.join(EVID, "replays", "%s-%d.json" % (ctx.prop, i))
        with open(path, "w") as fh:
            json.dump(dict(vs[0], property=ctx.prop, count=len(vs)), fh, indent=1, default=str)
        paths.append(path)
        print("VIOLATION property=%s replay=%s" % (ctx.prop, path))
        print("  %s: %s" % (sig, json.dumps(vs[0].get("op"), default=str)[:300]))
        print("  expected=%s" % json.dumps(vs[0].get("expected"), default=str)[:300])
        print("  observed=%s" % json.dumps(vs[0].get("observed"), default=str)[:300])
    cov = {
        "states": ctx.states, "transitions": ctx.transitions,
        "traces_validated_against_impl": ctx.traces,
        "evaluations": max(ctx.evaluations, 1),
        "samples": ctx.samples[:6] or ["(no sample)"],
        "exhaustive": bool(ctx.exhaustive),
        "stages": ctx.stages,
        "other_property_divergences": ctx.others,
        "known_findings_seen": sorted(printed),
    }
    if rule:
        cov["rule"] = rule
    if ctx.distinct:
        cov["distinct_nontrivial"] = ctx.distinct
    cov.update(ctx.notes)
    ev = {
        "property_id": ctx.prop, "tier": ctx.tier, "seed": ctx.seed, "level": level,
        "coverage": cov, "assumptions": ctx.assumptions, "wall_s": round(time.time() - ctx.t0, 2),
        "violations": len(new),
    }
    with open(os.path.join(EVID, ctx.prop + ".json"), "w") as fh:
        json.dump(ev, fh, indent=1, default=str)
    print("%s %s: states=%d transitions=%d impl-executions=%d violations=%d known=%d wall=%.1fs" % (
        ctx.prop, ctx.tier, ctx.states, ctx.transitions, ctx.traces, len(new), len(printed), time.time() - ctx.t0))
    return 1 if new else 0


def main_wrapper(fn):
    try:
        rc = fn()
    except MachineryFailure as e:
        print("MACHINERY-FAILURE %s" % e)
        rc = 2
    except SystemExit:
        raise
    except BaseException as e:   # a crash of the framework is never a verdict about the code
        import traceback
        traceback.print_exc()
        print("MACHINERY-FAILURE unexpected %s: %s" % (type(e).__name__, e))
        rc = 2
    sys.exit(rc)
