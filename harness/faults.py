"""C09 (second half) and C17: structural faults injected into messages, byte-level corruption of
valid files, and the generic record of a returned IR that TLC judges with CoherentJudge.tla."""
import io
import json
import os
import signal
import uuid as uuidlib

from . import protomsg, tlc
from .build import MachineryFailure, workdir


class Hang(Exception):
    pass


def load_guarded(gtirb, data, seconds=10):
    """load under a watchdog: returns ('exc', class name, message) | ('ir', IR) | ('hang',)"""

    def onalarm(*a):
        raise Hang()

    old = signal.signal(signal.SIGALRM, onalarm)
    signal.setitimer(signal.ITIMER_REAL, seconds)
    try:
        ir = gtirb.IR.load_protobuf_file(io.BytesIO(data))
        return ("ir", ir)
    except Hang:
        return ("hang",)
    except RecursionError as e:
        return ("exc", "RecursionError", str(e)[:100])
    except Exception as e:
        return ("exc", type(e).__name__, str(e)[:200])
    finally:
        signal.setitimer(signal.ITIMER_REAL, 0)
        signal.signal(signal.SIGALRM, old)


def coherence_record(gtirb, ir, try_save=True):
    """walk a returned IR through the public API; fresh names n0, n1, ...; see CoherentJudge.tla"""
    g = gtirb
    names = {}
    kind, kids, par = {}, {}, {}

    def name(o, k):
        if id(o) in names:
            return names[id(o)], False
        n = "n%d" % len(names)
        names[id(o)] = n
        kind[n] = k
        return n, True

    def pname(o):
        if o is None:
            return "none"
        return names.get(id(o), "outside")

    objs = []
    irn, _ = name(ir, "ir")
    objs.append((irn, ir))
    par[irn] = "none"
    kids[irn] = []
    for m in ir.modules:
        mn, new = name(m, "mod")
        kids[irn].append(mn)
        if not new:
            continue
        objs.append((mn, m))
        kids[mn] = []
        for coll, k in ((m.sections, "sec"), (m.symbols, "sym"), (m.proxies, "prx")):
            for c in coll:
                cn, new = name(c, k)
                kids[mn].append(cn)
                if new:
                    objs.append((cn, c))
        for s in m.sections:
            sn = names[id(s)]
            kids.setdefault(sn, [])
            for v in s.byte_intervals:
                vn, new = name(v, "biv")
                kids[sn].append(vn)
                if not new:
                    continue
                objs.append((vn, v))
                kids[vn] = []
                for b in v.blocks:
                    bn, new = name(b, "code" if isinstance(b, g.CodeBlock) else "data")
                    kids[vn].append(bn)
                    if new:
                        objs.append((bn, b))
    attr = {"mod": "ir", "sec": "module", "sym": "module", "prx": "module", "biv": "section", "code": "byte_interval",
            "data": "byte_interval"}
    for n, o in objs:
        if kind[n] != "ir":
            par[n] = pname(getattr(o, attr[kind[n]]))
    cache = [n for n, o in objs if ir.get_by_uuid(o.uuid) is o]
    uu = [o.uuid for _, o in objs]
    foreign = [str(u) for u in (uuidlib.UUID(int=0xDEAD), uuidlib.UUID(int=0)) if u not in uu and ir.get_by_uuid(u) is not None]
    refs = []

    def ref(site, holder, o):
        k = ("code" if isinstance(o, g.CodeBlock) else "data" if isinstance(o, g.DataBlock) else
             "prx" if isinstance(o, g.ProxyBlock) else "sym" if isinstance(o, g.Symbol) else type(o).__name__)
        refs.append({"site": site, "holder": holder, "kind": k, "same_object": id(o) in names})

    for n, o in objs:
        if kind[n] == "sym" and o.referent is not None:
            ref("referent", n, o.referent)
        if kind[n] == "mod" and o.entry_point is not None:
            ref("entry", n, o.entry_point)
        if kind[n] == "biv":
            for k, e in o.symbolic_expressions.items():
                for y in e.symbols:
                    ref("expr.sym", n, y)
    for e in ir.cfg:
        ref("edge.src", irn, e.source)
        ref("edge.tgt", irn, e.target)
    saves = True
    if try_save:
        try:
            buf = io.BytesIO()
            ir.save_protobuf_file(buf)
        except Exception:
            saves = False
    return {"outcome": "ir", "head": [71, 84, 73, 82, 66, 0, 0, 0], "pv": 0, "version": ir.version,
            "kind": kind, "kids": kids, "par": par, "cache": cache, "uuids_distinct": len(set(uu)) == len(uu),
            "foreign_hits": foreign, "refs": refs,
            "bytes": [[len(o.contents), o.size] for n, o in objs if kind[n] == "biv"], "saves_again": saves}


def judge_coherence(records):
    """TLC evaluates CoherentJudge on the recorded IRs -> list of (index, failing clauses)"""
    if not records:
        return [], 0
    wd = workdir("gtirbverif-coh-")
    p = os.path.join(wd, "irs.ndjson")
    with open(p, "w") as fh:
        for r in records:
            fh.write(json.dumps(r) + "\n")
    cfg = tlc.render_cfg({}, spec="JSpec", invariants=["Judge"], postcondition="Done")
    r = tlc.run("CoherentJudge", cfg, workers=4, env_extra={"JUDGE_FILE": p}, timeout=3000, heap="2g")
    if r.errors or r.violation:
        raise MachineryFailure("CoherentJudge: %s" % (r.errors or [r.violation])[0][:1500])
    if sum(x.get("judged", 0) for x in r.records) != len(records):
        raise MachineryFailure("CoherentJudge judged too few records")
    return [(x["bad"] - 1, x["failing"]) for x in r.records if "bad" in x], r.distinct


# ---- structural faults (driven by the LoadFault actions of Gtirb.tla) ------------------------------
def _site_fields(env, mapper, im, s):
    """locate the bytes field of a reference site in the protobuf message -> (message, field name)"""
    U = lambda n: env.uuid(n).bytes  # noqa
    if s["site"] == "referent":
        for m in im.modules:
            for y in m.symbols:
                if y.uuid == U(s["a"]):
                    return y, "referent_uuid"
    if s["site"] == "entry":
        for m in im.modules:
            if m.uuid == U(s["a"]):
                return m, "entry_point"
    if s["site"] in ("edge.src", "edge.tgt"):
        for e in im.cfg.edges:
            lab = "nolabel"
            if e.HasField("label"):
                lab = env.label_token(e.label.type, e.label.conditional, e.label.direct)
            if e.source_uuid == U(s["a"]) and e.target_uuid == U(s["b"]) and lab == s["c"]:
                return e, "source_uuid" if s["site"] == "edge.src" else "target_uuid"
    if s["site"] in ("expr.sym1", "expr.sym2"):
        for m in im.modules:
            for x in m.sections:
                for v in x.byte_intervals:
                    if v.uuid == U(s["a"]):
                        e = v.symbolic_expressions[int(s["b"])]
                        if e.HasField("addr_const"):
                            return e.addr_const, "symbol_uuid"
                        return e.addr_addr, "symbol1_uuid" if s["site"] == "expr.sym1" else "symbol2_uuid"
    raise MachineryFailure("fault site not found in the message: %r" % (s,))


def do_loadfault(env, op, pending):
    """execute one LoadFault action; returns the spec-vocabulary result.  IRs that were accepted where
    the spec says 'reject-or-coherent' are queued in `pending` for TLC's coherence judgement."""
    from .universe import SCHEMA
    import random
    from gtirb.version import PROTOBUF_VERSION
    rng = random.Random(hash(json.dumps(op["site"], sort_keys=True)) & 0xFFFF)
    mapper = protomsg.Mapper(env, SCHEMA)
    im = mapper.build_proto(op["msg"], rng, vary=False)
    f = op["fault"]
    data = None
    if f in ("dangling", "ill-typed"):
        holder, field = _site_fields(env, mapper, im, op["site"])
        setattr(holder, field, uuidlib.UUID(int=0xFEEDFACE).bytes if f == "dangling" else env.uuid(op["to"]).bytes)
    elif f == "dup-uuid":
        # both nodes (and therefore every reference to either) carry the UUID of the first; the two 16-byte strings
        # are swapped in the serialised message
        ua, ub = env.uuid(op["site"]["a"]).bytes, env.uuid(op["site"]["b"]).bytes
        raw = im.SerializeToString()
        if raw.count(ub) == 0 or raw.count(ua) == 0:
            raise MachineryFailure("dup-uuid: node not in the message: %r" % (op["site"],))
        im2 = type(im)()
        im2.ParseFromString(raw.replace(ub, ua))
        im = im2
    elif f == "unknown-enum-at":
        s = op["site"]
        if s["site"] == "enum.edge":
            holder, _ = _site_fields(env, mapper, im, dict(s, site="edge.src"))
            holder.label.type = 9999
        else:
            target = env.uuid(s["a"]).bytes
            done = False
            for m in im.modules:
                if m.uuid == target and s["b"] in ("isa", "file_format", "byte_order"):
                    setattr(m, s["b"], 9999)
                    done = True
                for x in m.sections:
                    if x.uuid == target and s["b"] == "section_flags":
                        x.section_flags.append(9999)
                        done = True
                    for v in x.byte_intervals:
                        for b in v.blocks:
                            if b.HasField("code") and b.code.uuid == target and s["b"] == "decode_mode":
                                b.code.decode_mode = 9999
                                done = True
            if not done:
                raise MachineryFailure("enum site not found in the message: %r" % (s,))
    elif f == "dup-uuid-same-kind":
        mods = list(im.modules)
        secs = [x for m in mods for x in m.sections]
        if len(secs) >= 2:
            secs[1].uuid = secs[0].uuid
        elif len(mods) >= 2:
            mods[1].uuid = mods[0].uuid
        else:
            return "none"
    elif f == "dup-uuid-cross-kind":
        mods = list(im.modules)
        secs = [x for m in mods for x in m.sections]
        if not secs:
            return "none"
        secs[0].uuid = mods[0].uuid
    elif f == "unknown-enum":
        if not im.modules:
            return "none"
        im.modules[0].isa = 9999
    elif f in ("uuid-too-short", "uuid-too-long"):
        if not im.modules:
            return "none"
        im.modules[0].uuid = im.modules[0].uuid[:15] if f == "uuid-too-short" else im.modules[0].uuid + b"\0"
    elif f in ("contents-exceed-size", "contents-exceed-zero-size"):
        ivs = [v for m in im.modules for x in m.sections for v in x.byte_intervals]
        if not ivs:
            return "none"
        if f == "contents-exceed-zero-size":
            ivs[0].size = 0
            ivs[0].contents = b"\x01"
        else:
            ivs[0].size = 4
            ivs[0].contents = b"\x01" * 8
    elif f == "bad-magic":
        data = protomsg.file_bytes(im, magic=b"GTIRX")
    elif f == "bad-version-byte":
        data = protomsg.file_bytes(im, version=(PROTOBUF_VERSION + 1) % 256)
    elif f == "bad-version-field":
        im.version = PROTOBUF_VERSION + 1
    elif f == "zero-version-field":
        im.version = 0                       # proto3: the same bytes as an absent field
    elif f == "truncated-header":
        data = protomsg.file_bytes(im)[:4]
    else:
        raise MachineryFailure("unknown fault %r" % f)
    if data is None:
        data = protomsg.file_bytes(im)
    out = load_guarded(env.g, data)
    want = op["expect"]
    if out[0] == "hang":
        return {"exc": "Hang"}
    if want in ("DeserializationError", "ValueError"):
        if out[0] == "exc" and out[1] == want:
            return "none"
        return {"exc": "Expected%s" % want, "msg": "loaded an IR" if out[0] == "ir" else "%s: %s" % (out[1], out[2])}
    if out[0] == "ir":
        r = coherence_record(env.g, out[1])
        r.update(head=list(data[:8]), pv=PROTOBUF_VERSION)
        pending.append((dict(op, msg=None), r))
    return "none"


# ---- byte-level corruption of valid files ----------------------------------------------------------------
def corruptions(data, rng, budget):
    """truncation at every cut point, single-bit flips and byte substitutions (all of them when the
    file is small enough for the budget, else a seeded sample), header variations"""
    out = []
    n = len(data)
    cuts = list(range(n)) if n <= budget // 4 else sorted(rng.sample(range(n), budget // 4))
    for c in cuts:
        out.append(("truncate@%d" % c, data[:c]))
    flips = [(i, b) for i in range(n) for b in range(8)]
    if len(flips) > budget // 2:
        flips = rng.sample(flips, budget // 2)
    for i, b in flips:
        out.append(("bitflip@%d.%d" % (i, b), data[:i] + bytes([data[i] ^ (1 << b)]) + data[i + 1:]))
    for _ in range(budget // 4):
        i = rng.randrange(n)
        v = rng.choice([0, 0xFF, 0x80, 0x7F, rng.randrange(256)])
        out.append(("byte@%d=%d" % (i, v), data[:i] + bytes([v]) + data[i + 1:]))
    for k in range(5):
        for v in (0x00, 0x41, 0xFF):
            out.append(("magic@%d=%d" % (k, v), data[:k] + bytes([v]) + data[k + 1:]))
    for v in range(0, 256, 5):
        out.append(("version=%d" % v, data[:7] + bytes([v]) + data[8:]))
    out.append(("empty", b""))
    out.append(("header-only", data[:8]))
    out.append(("append-garbage", data + b"\xff\xff\xff"))
    return out


def outcome_record(gtirb, data, pv, out):
    """record of one load attempt on arbitrary bytes (judged by CoherentJudge.tla)"""
    head = list(data[:8])
    if out[0] == "ir":
        r = coherence_record(gtirb, out[1])
        r.update(head=head, pv=pv)
        return r
    oc = "hang" if out[0] == "hang" else "exc:" + out[1]
    return {"outcome": oc, "head": head, "pv": pv, "version": pv, "kind": {}, "kids": {}, "par": {}, "cache": [], "uuids_distinct": True,
            "foreign_hits": [], "refs": [], "bytes": [], "saves_again": True}
