package com.google.protobuf;

import java.util.Arrays;

/**
 * Minimal stand-in for com.google.protobuf.ByteString, sufficient to compile
 * com.grammatech.gtirb.Util without the protobuf runtime. Immutable.
 */
public final class ByteString {
    public static final ByteString EMPTY = new ByteString(new byte[0]);

    private final byte[] bytes;

    private ByteString(byte[] b) { this.bytes = b; }

    public static ByteString copyFrom(byte[] b) {
        if (b.length == 0) {
            return EMPTY;
        }
        return new ByteString(Arrays.copyOf(b, b.length));
    }

    public static ByteString copyFrom(byte[] b, int offset, int size) {
        if (size == 0) {
            return EMPTY;
        }
        return new ByteString(Arrays.copyOfRange(b, offset, offset + size));
    }

    public byte[] toByteArray() {
        return Arrays.copyOf(this.bytes, this.bytes.length);
    }

    public int size() { return this.bytes.length; }

    public boolean isEmpty() { return this.bytes.length == 0; }

    public byte byteAt(int i) { return this.bytes[i]; }

    @Override
    public boolean equals(Object o) {
        if (o == this) {
            return true;
        }
        if (!(o instanceof ByteString)) {
            return false;
        }
        return Arrays.equals(this.bytes, ((ByteString)o).bytes);
    }

    @Override
    public int hashCode() {
        return Arrays.hashCode(this.bytes);
    }
}
