#!/bin/sh
# build.sh <outdir>
# Compiles the repository's AuxData codec sources (taken from $VERIF_REPO,
# default /repo), the com.google.protobuf.ByteString stub and CodecDriver.java
# into <outdir>. Run afterwards with:  java -cp <outdir> CodecDriver
set -eu

if [ $# -ne 1 ]; then
    echo "usage: $0 <outdir>" >&2
    exit 2
fi

out=$1
repo=${VERIF_REPO:-/repo}
here=$(cd "$(dirname "$0")" && pwd)
src=$repo/java/com/grammatech/gtirb

if [ ! -d "$src/auxdatacodec" ]; then
    echo "$0: $src/auxdatacodec not found" >&2
    exit 1
fi

mkdir -p "$out"

# -nowarn / -Xlint:none: the repo uses the deprecated `new Long(...)`.
javac -nowarn -Xlint:none -encoding UTF-8 -d "$out" \
    "$src"/auxdatacodec/*.java \
    "$src"/Offset.java \
    "$src"/Util.java \
    "$src"/tuple/*.java \
    "$src"/variant/*.java \
    "$here"/stub/com/google/protobuf/ByteString.java \
    "$here"/CodecDriver.java
