import com.grammatech.gtirb.Offset;
import com.grammatech.gtirb.auxdatacodec.BoolCodec;
import com.grammatech.gtirb.auxdatacodec.ByteCodec;
import com.grammatech.gtirb.auxdatacodec.Codec;
import com.grammatech.gtirb.auxdatacodec.FloatCodec;
import com.grammatech.gtirb.auxdatacodec.IntegerCodec;
import com.grammatech.gtirb.auxdatacodec.ListCodec;
import com.grammatech.gtirb.auxdatacodec.LongCodec;
import com.grammatech.gtirb.auxdatacodec.MapCodec;
import com.grammatech.gtirb.auxdatacodec.OffsetCodec;
import com.grammatech.gtirb.auxdatacodec.SetCodec;
import com.grammatech.gtirb.auxdatacodec.ShortCodec;
import com.grammatech.gtirb.auxdatacodec.StringCodec;
import com.grammatech.gtirb.auxdatacodec.Tuple1Codec;
import com.grammatech.gtirb.auxdatacodec.Tuple2Codec;
import com.grammatech.gtirb.auxdatacodec.Tuple3Codec;
import com.grammatech.gtirb.auxdatacodec.Tuple4Codec;
import com.grammatech.gtirb.auxdatacodec.Tuple5Codec;
import com.grammatech.gtirb.auxdatacodec.UuidCodec;
import com.grammatech.gtirb.auxdatacodec.Variant11Codec;
import com.grammatech.gtirb.auxdatacodec.Variant2Codec;
import com.grammatech.gtirb.auxdatacodec.Variant3Codec;
import com.grammatech.gtirb.tuple.Tuple1;
import com.grammatech.gtirb.tuple.Tuple2;
import com.grammatech.gtirb.tuple.Tuple3;
import com.grammatech.gtirb.tuple.Tuple4;
import com.grammatech.gtirb.tuple.Tuple5;
import com.grammatech.gtirb.variant.Token;
import com.grammatech.gtirb.variant.Variant11;
import com.grammatech.gtirb.variant.Variant2;
import com.grammatech.gtirb.variant.Variant3;
import java.io.BufferedReader;
import java.io.ByteArrayInputStream;
import java.io.ByteArrayOutputStream;
import java.io.InputStreamReader;
import java.io.PrintStream;
import java.nio.charset.StandardCharsets;
import java.util.ArrayList;
import java.util.Collection;
import java.util.HashMap;
import java.util.HashSet;
import java.util.LinkedHashMap;
import java.util.LinkedHashSet;
import java.util.List;
import java.util.Map;
import java.util.UUID;

/**
 * Line-oriented driver around the GTIRB Java AuxData codecs.
 *
 * stdin : one request per line, "<typeName>\t<hex>".
 * stdout: one JSON object per request (see the harness documentation).
 *
 * Options:
 *   --unordered       use HashSet/HashMap suppliers instead of the default
 *                     LinkedHashSet/LinkedHashMap (insertion-ordered).
 *   --uuid-canonical  render java.util.UUID values as their canonical
 *                     big-endian bytes (msb then lsb) instead of the wire
 *                     layout used by Util.readUUID/writeUUID (which is each
 *                     64-bit half LITTLE-endian).
 */
@SuppressWarnings({"unchecked", "rawtypes"})
public class CodecDriver {

    static boolean unordered = false;
    static boolean uuidCanonical = false;

    // ------------------------------------------------------------------
    // Type-name parsing: T ::= name | name '<' T (',' T)* '>'
    // ------------------------------------------------------------------

    static final class Node {
        final String name;
        final List<Node> kids = new ArrayList<>();
        boolean hasParams = false;
        Node(String name) { this.name = name; }
    }

    static final class ParseError extends RuntimeException {
        ParseError(String m) { super(m); }
    }

    static final class Unsupported extends RuntimeException {
        Unsupported(String m) { super(m); }
    }

    static final class Parser {
        final String s;
        int pos = 0;
        Parser(String s) { this.s = s; }

        Node parseAll() {
            Node n = parse();
            if (pos != s.length()) {
                throw new ParseError("trailing characters in type name at " +
                                     pos);
            }
            return n;
        }

        Node parse() {
            int start = pos;
            while (pos < s.length()) {
                char c = s.charAt(pos);
                if (c == '<' || c == '>' || c == ',') {
                    break;
                }
                pos++;
            }
            String name = s.substring(start, pos);
            if (name.isEmpty()) {
                throw new ParseError("empty name in type name at " + start);
            }
            Node n = new Node(name);
            if (pos < s.length() && s.charAt(pos) == '<') {
                n.hasParams = true;
                pos++;
                // Not in the grammar, but accept "name<>" as zero parameters
                // so that e.g. "tuple<>" is reported as unsupported.
                if (pos < s.length() && s.charAt(pos) == '>') {
                    pos++;
                    return n;
                }
                while (true) {
                    n.kids.add(parse());
                    if (pos >= s.length()) {
                        throw new ParseError("unterminated '<' in type name");
                    }
                    char c = s.charAt(pos++);
                    if (c == '>') {
                        break;
                    }
                    if (c != ',') {
                        throw new ParseError("unexpected '" + c +
                                             "' in type name at " + (pos - 1));
                    }
                }
            }
            return n;
        }
    }

    // ------------------------------------------------------------------
    // Concrete subclasses of the repository's abstract tuples / variants
    // (deliberately NOT overriding equals/hashCode: keep repo behaviour).
    // ------------------------------------------------------------------

    static final class T1 extends Tuple1<Object> {
        T1(Object a) { super(a); }
    }
    static final class T2 extends Tuple2<Object, Object> {
        T2(Object a, Object b) { super(a, b); }
    }
    static final class T3 extends Tuple3<Object, Object, Object> {
        T3(Object a, Object b, Object c) { super(a, b, c); }
    }
    static final class T4 extends Tuple4<Object, Object, Object, Object> {
        T4(Object a, Object b, Object c, Object d) { super(a, b, c, d); }
    }
    static final class T5
        extends Tuple5<Object, Object, Object, Object, Object> {
        T5(Object a, Object b, Object c, Object d, Object e) {
            super(a, b, c, d, e);
        }
    }

    static final class V2 extends Variant2<Object, Object> {
        V2(Token.T0 t, Object o) { super(t, o); }
        V2(Token.T1 t, Object o) { super(t, o); }
    }
    static final class V3 extends Variant3<Object, Object, Object> {
        V3(Token.T0 t, Object o) { super(t, o); }
        V3(Token.T1 t, Object o) { super(t, o); }
        V3(Token.T2 t, Object o) { super(t, o); }
    }
    static final class V11
        extends Variant11<Object, Object, Object, Object, Object, Object,
                          Object, Object, Object, Object, Object> {
        V11(Token.T0 t, Object o) { super(t, o); }
        V11(Token.T1 t, Object o) { super(t, o); }
        V11(Token.T2 t, Object o) { super(t, o); }
        V11(Token.T3 t, Object o) { super(t, o); }
        V11(Token.T4 t, Object o) { super(t, o); }
        V11(Token.T5 t, Object o) { super(t, o); }
        V11(Token.T6 t, Object o) { super(t, o); }
        V11(Token.T7 t, Object o) { super(t, o); }
        V11(Token.T8 t, Object o) { super(t, o); }
        V11(Token.T9 t, Object o) { super(t, o); }
        V11(Token.T10 t, Object o) { super(t, o); }
    }

    // ------------------------------------------------------------------
    // A built type: the repository codec plus a JSON renderer for values.
    // ------------------------------------------------------------------

    static abstract class Ty {
        Codec codec;
        abstract void render(StringBuilder sb, Object v);
    }

    static void renderInt(StringBuilder sb, boolean neg, long magUnsigned) {
        sb.append("{\"neg\":").append(neg ? "true" : "false");
        sb.append(",\"mag\":[");
        for (int i = 0; i < 4; i++) {
            if (i > 0) {
                sb.append(',');
            }
            sb.append((magUnsigned >>> (16 * i)) & 0xffffL);
        }
        sb.append("]}");
    }

    static final class IntTy extends Ty {
        final int bits;
        final boolean unsigned;
        IntTy(Codec c, int bits, boolean unsigned) {
            this.codec = c;
            this.bits = bits;
            this.unsigned = unsigned;
        }
        void render(StringBuilder sb, Object v) {
            long raw = ((Number)v).longValue(); // sign-extended Java value
            if (unsigned) {
                long m = bits == 64 ? raw : (raw & ((1L << bits) - 1));
                renderInt(sb, false, m);
            } else {
                boolean neg = raw < 0;
                // -Long.MIN_VALUE == Long.MIN_VALUE == 2^63 read as unsigned.
                renderInt(sb, neg, neg ? -raw : raw);
            }
        }
    }

    static final class BoolTy extends Ty {
        BoolTy() { this.codec = new BoolCodec(); }
        void render(StringBuilder sb, Object v) {
            sb.append(((Boolean)v).booleanValue() ? "true" : "false");
        }
    }

    static final class FloatTy extends Ty {
        FloatTy() { this.codec = new FloatCodec(); }
        void render(StringBuilder sb, Object v) {
            int bits = Float.floatToRawIntBits(((Float)v).floatValue());
            sb.append("{\"s\":").append(bits >>> 31);
            sb.append(",\"e\":").append((bits >>> 23) & 0xff);
            sb.append(",\"m\":[").append(bits & 0xffff).append(',');
            sb.append((bits >>> 16) & 0x7f).append("]}");
        }
    }

    static final class StringTy extends Ty {
        StringTy() { this.codec = new StringCodec(); }
        void render(StringBuilder sb, Object v) {
            String s = (String)v;
            sb.append('[');
            boolean first = true;
            for (int i = 0; i < s.length();) {
                int cp = s.codePointAt(i);
                i += Character.charCount(cp);
                if (!first) {
                    sb.append(',');
                }
                first = false;
                sb.append(cp);
            }
            sb.append(']');
        }
    }

    static void renderUuid(StringBuilder sb, UUID u) {
        long msb = u.getMostSignificantBits();
        long lsb = u.getLeastSignificantBits();
        sb.append('[');
        for (int i = 0; i < 16; i++) {
            long half = i < 8 ? msb : lsb;
            int k = i & 7;
            int b;
            if (uuidCanonical) {
                // canonical java.util.UUID byte order: big-endian halves
                b = (int)((half >>> (8 * (7 - k))) & 0xff);
            } else {
                // wire layout of Util.readUUID/writeUUID: little-endian
                // halves (ByteOrder.LITTLE_ENDIAN getLong/putLong)
                b = (int)((half >>> (8 * k)) & 0xff);
            }
            if (i > 0) {
                sb.append(',');
            }
            sb.append(b);
        }
        sb.append(']');
    }

    static final class UuidTy extends Ty {
        UuidTy() { this.codec = new UuidCodec(); }
        void render(StringBuilder sb, Object v) { renderUuid(sb, (UUID)v); }
    }

    static final class OffsetTy extends Ty {
        OffsetTy() { this.codec = new OffsetCodec(); }
        void render(StringBuilder sb, Object v) {
            Offset o = (Offset)v;
            sb.append("{\"u\":");
            renderUuid(sb, o.getElementId());
            sb.append(",\"d\":");
            renderInt(sb, false, o.getDisplacement());
            sb.append('}');
        }
    }

    static final class CollTy extends Ty {
        final Ty elem;
        CollTy(Ty elem, boolean isSet) {
            this.elem = elem;
            if (isSet) {
                this.codec = unordered
                                 ? new SetCodec(elem.codec, HashSet::new)
                                 : new SetCodec(elem.codec, LinkedHashSet::new);
            } else {
                this.codec = new ListCodec(elem.codec, ArrayList::new);
            }
        }
        void render(StringBuilder sb, Object v) {
            sb.append('[');
            boolean first = true;
            for (Object e : (Collection<Object>)v) {
                if (!first) {
                    sb.append(',');
                }
                first = false;
                elem.render(sb, e);
            }
            sb.append(']');
        }
    }

    static final class MapTy extends Ty {
        final Ty k, v;
        MapTy(Ty k, Ty v) {
            this.k = k;
            this.v = v;
            this.codec = unordered
                             ? new MapCodec(k.codec, v.codec, HashMap::new)
                             : new MapCodec(k.codec, v.codec,
                                            LinkedHashMap::new);
        }
        void render(StringBuilder sb, Object val) {
            sb.append('[');
            boolean first = true;
            for (Map.Entry<Object, Object> e :
                 ((Map<Object, Object>)val).entrySet()) {
                if (!first) {
                    sb.append(',');
                }
                first = false;
                sb.append('[');
                k.render(sb, e.getKey());
                sb.append(',');
                v.render(sb, e.getValue());
                sb.append(']');
            }
            sb.append(']');
        }
    }

    static final class TupleTy extends Ty {
        final Ty[] f;
        TupleTy(Ty[] f) {
            this.f = f;
            switch (f.length) {
            case 1:
                this.codec = new Tuple1Codec<T1, Object>(f[0].codec, T1::new);
                break;
            case 2:
                this.codec = new Tuple2Codec<T2, Object, Object>(
                    f[0].codec, f[1].codec, T2::new);
                break;
            case 3:
                this.codec = new Tuple3Codec<T3, Object, Object, Object>(
                    f[0].codec, f[1].codec, f[2].codec, T3::new);
                break;
            case 4:
                this.codec =
                    new Tuple4Codec<T4, Object, Object, Object, Object>(
                        f[0].codec, f[1].codec, f[2].codec, f[3].codec,
                        T4::new);
                break;
            case 5:
                this.codec =
                    new Tuple5Codec<T5, Object, Object, Object, Object,
                                    Object>(f[0].codec, f[1].codec, f[2].codec,
                                            f[3].codec, f[4].codec, T5::new);
                break;
            default:
                throw new Unsupported("tuple arity " + f.length);
            }
        }
        Object field(Object t, int i) {
            switch (f.length) {
            case 1:
                return ((T1)t).get0();
            case 2: {
                T2 x = (T2)t;
                return i == 0 ? x.get0() : x.get1();
            }
            case 3: {
                T3 x = (T3)t;
                return i == 0 ? x.get0() : i == 1 ? x.get1() : x.get2();
            }
            case 4: {
                T4 x = (T4)t;
                return i == 0   ? x.get0()
                       : i == 1 ? x.get1()
                       : i == 2 ? x.get2()
                                : x.get3();
            }
            default: {
                T5 x = (T5)t;
                return i == 0   ? x.get0()
                       : i == 1 ? x.get1()
                       : i == 2 ? x.get2()
                       : i == 3 ? x.get3()
                                : x.get4();
            }
            }
        }
        void render(StringBuilder sb, Object v) {
            sb.append('[');
            for (int i = 0; i < f.length; i++) {
                if (i > 0) {
                    sb.append(',');
                }
                f[i].render(sb, field(v, i));
            }
            sb.append(']');
        }
    }

    static final class VariantTy extends Ty {
        final Ty[] a;
        VariantTy(Ty[] a) {
            this.a = a;
            switch (a.length) {
            case 2:
                this.codec = new Variant2Codec<V2, Object, Object>(
                    a[0].codec, a[1].codec, o -> new V2(new Token.T0(), o),
                    o -> new V2(new Token.T1(), o));
                break;
            case 3:
                this.codec = new Variant3Codec<V3, Object, Object, Object>(
                    a[0].codec, a[1].codec, a[2].codec,
                    o -> new V3(new Token.T0(), o),
                    o -> new V3(new Token.T1(), o),
                    o -> new V3(new Token.T2(), o));
                break;
            case 11:
                this.codec =
                    new Variant11Codec<V11, Object, Object, Object, Object,
                                       Object, Object, Object, Object, Object,
                                       Object, Object>(
                        a[0].codec, a[1].codec, a[2].codec, a[3].codec,
                        a[4].codec, a[5].codec, a[6].codec, a[7].codec,
                        a[8].codec, a[9].codec, a[10].codec,
                        o -> new V11(new Token.T0(), o),
                        o -> new V11(new Token.T1(), o),
                        o -> new V11(new Token.T2(), o),
                        o -> new V11(new Token.T3(), o),
                        o -> new V11(new Token.T4(), o),
                        o -> new V11(new Token.T5(), o),
                        o -> new V11(new Token.T6(), o),
                        o -> new V11(new Token.T7(), o),
                        o -> new V11(new Token.T8(), o),
                        o -> new V11(new Token.T9(), o),
                        o -> new V11(new Token.T10(), o));
                break;
            default:
                throw new Unsupported("variant arity " + a.length);
            }
        }
        void render(StringBuilder sb, Object v) {
            int idx;
            Object val;
            if (a.length == 2) {
                V2 x = (V2)v;
                idx = x.getIndex();
                val = (idx == 0 ? x.get0() : x.get1()).get();
            } else if (a.length == 3) {
                V3 x = (V3)v;
                idx = x.getIndex();
                val = (idx == 0 ? x.get0() : idx == 1 ? x.get1() : x.get2())
                          .get();
            } else {
                V11 x = (V11)v;
                idx = x.getIndex();
                switch (idx) {
                case 0:
                    val = x.get0().get();
                    break;
                case 1:
                    val = x.get1().get();
                    break;
                case 2:
                    val = x.get2().get();
                    break;
                case 3:
                    val = x.get3().get();
                    break;
                case 4:
                    val = x.get4().get();
                    break;
                case 5:
                    val = x.get5().get();
                    break;
                case 6:
                    val = x.get6().get();
                    break;
                case 7:
                    val = x.get7().get();
                    break;
                case 8:
                    val = x.get8().get();
                    break;
                case 9:
                    val = x.get9().get();
                    break;
                default:
                    val = x.get10().get();
                    break;
                }
            }
            sb.append("{\"i\":").append(idx).append(",\"v\":");
            a[idx].render(sb, val);
            sb.append('}');
        }
    }

    // ------------------------------------------------------------------
    // Type tree -> codec
    // ------------------------------------------------------------------

    static void arity(Node n, int want) {
        if (n.kids.size() != want) {
            throw new Unsupported(n.name + " with " + n.kids.size() +
                                  " parameters");
        }
    }

    static Ty[] buildKids(Node n) {
        Ty[] r = new Ty[n.kids.size()];
        for (int i = 0; i < r.length; i++) {
            r[i] = build(n.kids.get(i));
        }
        return r;
    }

    static Ty build(Node n) {
        switch (n.name) {
        case "sequence":
            arity(n, 1);
            return new CollTy(build(n.kids.get(0)), false);
        case "set":
            arity(n, 1);
            return new CollTy(build(n.kids.get(0)), true);
        case "mapping":
            arity(n, 2);
            return new MapTy(build(n.kids.get(0)), build(n.kids.get(1)));
        case "tuple":
            if (n.kids.size() < 1 || n.kids.size() > 5) {
                throw new Unsupported("tuple arity " + n.kids.size());
            }
            return new TupleTy(buildKids(n));
        case "variant":
            if (n.kids.size() != 2 && n.kids.size() != 3 &&
                n.kids.size() != 11) {
                throw new Unsupported("variant arity " + n.kids.size());
            }
            return new VariantTy(buildKids(n));
        default:
            break;
        }
        // Everything below is a leaf: no '<...>' allowed.
        if (n.hasParams) {
            throw new Unsupported(n.name + " with parameters");
        }
        switch (n.name) {
        case "bool":
            return new BoolTy();
        case "int8_t":
            return new IntTy(ByteCodec.INT8, 8, false);
        case "uint8_t":
            return new IntTy(ByteCodec.UINT8, 8, true);
        case "int16_t":
            return new IntTy(ShortCodec.INT16, 16, false);
        case "uint16_t":
            return new IntTy(ShortCodec.UINT16, 16, true);
        case "int32_t":
            return new IntTy(IntegerCodec.INT32, 32, false);
        case "uint32_t":
            return new IntTy(IntegerCodec.UINT32, 32, true);
        case "int64_t":
            return new IntTy(LongCodec.INT64, 64, false);
        case "uint64_t":
            return new IntTy(LongCodec.UINT64, 64, true);
        case "float":
            return new FloatTy();
        case "string":
            return new StringTy();
        case "UUID":
            return new UuidTy();
        case "Offset":
            return new OffsetTy();
        default:
            // "Addr": LongCodec's constructor is private and only INT64 /
            // UINT64 instances exist, so no codec can carry that name.
            // "double": there is no DoubleCodec.
            throw new Unsupported("unknown type name " + n.name);
        }
    }

    // ------------------------------------------------------------------
    // Request handling
    // ------------------------------------------------------------------

    static String jsonString(String s) {
        StringBuilder sb = new StringBuilder("\"");
        for (int i = 0; i < s.length(); i++) {
            char c = s.charAt(i);
            switch (c) {
            case '"':
                sb.append("\\\"");
                break;
            case '\\':
                sb.append("\\\\");
                break;
            case '\n':
                sb.append("\\n");
                break;
            case '\r':
                sb.append("\\r");
                break;
            case '\t':
                sb.append("\\t");
                break;
            default:
                if (c < 0x20 || c > 0x7e) {
                    sb.append(String.format("\\u%04x", (int)c));
                } else {
                    sb.append(c);
                }
            }
        }
        return sb.append('"').toString();
    }

    static String error(Throwable t) {
        return "{\"ok\":false,\"error\":" +
            jsonString(t.getClass().getName() + ": " + t.getMessage()) + "}";
    }

    static byte[] unhex(String h) {
        if ((h.length() & 1) != 0) {
            throw new IllegalArgumentException("odd number of hex digits");
        }
        byte[] r = new byte[h.length() / 2];
        for (int i = 0; i < r.length; i++) {
            int hi = Character.digit(h.charAt(2 * i), 16);
            int lo = Character.digit(h.charAt(2 * i + 1), 16);
            if (hi < 0 || lo < 0) {
                throw new IllegalArgumentException("bad hex digit at " +
                                                   (2 * i));
            }
            r[i] = (byte)((hi << 4) | lo);
        }
        return r;
    }

    static String handle(String line) {
        try {
            String typeName = line;
            String hex = "";
            int tab = line.indexOf('\t');
            if (tab >= 0) {
                typeName = line.substring(0, tab);
                hex = line.substring(tab + 1).trim();
            }
            Ty ty;
            try {
                ty = build(new Parser(typeName).parseAll());
            } catch (Unsupported u) {
                return "{\"unsupported\":true}";
            }
            byte[] data = unhex(hex);
            ByteArrayInputStream in = new ByteArrayInputStream(data);
            Object val = ty.codec.decode(in);
            int consumed = data.length - in.available();

            ByteArrayOutputStream out = new ByteArrayOutputStream();
            ty.codec.encode(out, val);
            byte[] re = out.toByteArray();

            StringBuilder sb = new StringBuilder();
            sb.append("{\"ok\":true,\"value\":");
            ty.render(sb, val);
            sb.append(",\"reenc\":[");
            for (int i = 0; i < re.length; i++) {
                if (i > 0) {
                    sb.append(',');
                }
                sb.append(re[i] & 0xff);
            }
            sb.append("],\"consumed\":").append(consumed);
            sb.append(",\"typename\":")
                .append(jsonString(ty.codec.getTypeName()));
            // Result of the "stream fully consumed" check.
            sb.append(",\"full\":")
                .append(consumed == data.length ? "true" : "false");
            sb.append('}');
            return sb.toString();
        } catch (Throwable t) {
            // includes OutOfMemoryError / NegativeArraySizeException from
            // attacker-controlled lengths, StackOverflowError, ...
            return error(t);
        }
    }

    public static void main(String[] args) throws Exception {
        for (String a : args) {
            if (a.equals("--unordered")) {
                unordered = true;
            } else if (a.equals("--uuid-canonical")) {
                uuidCanonical = true;
            } else {
                System.err.println("unknown option: " + a);
                System.exit(2);
            }
        }
        BufferedReader r = new BufferedReader(
            new InputStreamReader(System.in, StandardCharsets.UTF_8));
        PrintStream w = new PrintStream(System.out, false, "UTF-8");
        String line;
        while ((line = r.readLine()) != null) {
            if (line.endsWith("\r")) {
                line = line.substring(0, line.length() - 1);
            }
            w.print(handle(line));
            w.print('\n');
        }
        w.flush();
    }
}
