"""gtirb.proto.IR messages <-> the message records of Gtirb.tla (MsgOf).

canon_from_proto renders a parsed protobuf message in the spec's shape (C02, writer direction);
build_proto constructs a message from a spec record with the generated classes only -- never
through gtirb's writer -- for the reader direction (C02), identity (C09) and faults (C09, C17).
Both walk the descriptors: a schema field this module does not know is a machinery failure.
"""
import json
import uuid as uuidlib

from .build import MachineryFailure

HANDLED = {
    "IR": {"uuid", "modules", "aux_data", "version", "cfg"},
    "Module": {"uuid", "binary_path", "preferred_addr", "rebase_delta", "file_format", "isa", "name", "symbols",
               "proxies", "sections", "aux_data", "entry_point", "byte_order"},
    "Section": {"uuid", "name", "byte_intervals", "section_flags"},
    "ByteInterval": {"uuid", "blocks", "symbolic_expressions", "has_address", "address", "size", "contents"},
    "Block": {"offset", "code", "data"},
    "CodeBlock": {"uuid", "size", "decode_mode"},
    "DataBlock": {"uuid", "size"},
    "ProxyBlock": {"uuid"},
    "Symbol": {"uuid", "value", "referent_uuid", "name", "at_end"},
    "SymbolicExpression": {"addr_const", "addr_addr", "attribute_flags"},
    "SymAddrConst": {"offset", "symbol_uuid"},
    "SymAddrAddr": {"scale", "offset", "symbol1_uuid", "symbol2_uuid"},
    "CFG": {"vertices", "edges"},
    "Edge": {"source_uuid", "target_uuid", "label"},
    "EdgeLabel": {"conditional", "direct", "type"},
    "AuxData": {"type_name", "data"},
}


class Schema:
    """enum value lists and message field lists taken from /repo/proto (via the generated descriptors)"""

    def __init__(self, fds):
        self.enums = {}
        self.fields = {}
        for fd in fds:
            for e in fd.enum_type:
                self.enums[e.name] = [(v.name, v.number) for v in e.value]
            for m in fd.message_type:
                self.fields[m.name] = {f.name for f in m.field}
        for name, want in HANDLED.items():
            have = self.fields.get(name)
            if have is None or have != want:
                if name == "SymStackConst":
                    continue
                raise MachineryFailure("schema of message %s changed: fields %s, harness knows %s" % (
                    name, sorted(have or []), sorted(want)))

    def number(self, enum, token):
        """'E3' -> number of the 4th declared constant"""
        return self.enums[enum][int(token[1:])][1]

    def token(self, enum, number):
        for k, (_, n) in enumerate(self.enums[enum]):
            if n == number:
                return "E%d" % k
        return "UNKNOWN-ENUM:%d" % number


def _sort(xs):
    return sorted(xs, key=lambda x: json.dumps(x, sort_keys=True))


def canon_msg(m):
    """normalise a message record (from TLC or from canon_from_proto): sets sorted, sequences kept"""
    c = m["content"]

    def interval(v):
        return dict(v, blocks=_sort(v["blocks"]), symx=_sort([dict(e, attrs=sorted(e["attrs"])) for e in v["symx"]]))

    def section(s):
        return dict(s, flags=sorted(s["flags"]), intervals=_sort([interval(v) for v in s["intervals"]]))

    def module(mo):
        return dict(mo, aux=sorted(mo["aux"]), proxies=sorted(mo["proxies"]),
                    sections=_sort([section(s) for s in mo["sections"]]), symbols=_sort(mo["symbols"]))

    return {"content": {"uuid": c["uuid"], "version": c.get("version", "CUR"), "aux": sorted(c["aux"]), "modules": _sort([module(x) for x in c["modules"]]),
                        "edges": _sort(c["edges"])},
            "module_order": list(m["module_order"]), "vertices": sorted(m["vertices"])}


class Mapper:
    def __init__(self, env, schema):
        self.env, self.s = env, schema
        self.by_uuid = {env.uuid(n).bytes: n for n in env.kind if env.kind[n] != "expr"}
        self.by_uuid[env.hidden_sym.uuid.bytes] = "HIDDEN"

    @staticmethod
    def _auxkey(k):
        return int(k[1:]) if k[:1] == "k" and k[1:].isdigit() else k

    def nid(self, b):
        if b == b"":
            return "none"
        return self.by_uuid.get(bytes(b), "?" + bytes(b).hex())

    # ---- protobuf -> record -------------------------------------------------------------------
    def canon_from_proto(self, msg, expr_ids):
        """expr_ids: {(interval id, key): expr id} -- expressions are values, the spec names them"""
        env, s = self.env, self.s

        def block(b):
            which = b.WhichOneof("value")
            inner = b.code if which == "code" else b.data
            return {"uuid": self.nid(inner.uuid), "offset": b.offset, "size": inner.size, "kind": which or "none",
                    "decode_mode": s.token("DecodeMode", inner.decode_mode) if which == "code" else "-"}

        def expr(vid, k, e):
            which = e.WhichOneof("value")
            eid = expr_ids.get((vid, k), "?")
            attrs = [env.attr_token(a) for a in e.attribute_flags]
            if which == "addr_const":
                return {"key": k, "kind": "ac", "sym1": self.nid(e.addr_const.symbol_uuid), "sym2": "none",
                        "offset": env.i64_token(e.addr_const.offset), "scale": "-", "attrs": attrs}
            if which == "addr_addr":
                return {"key": k, "kind": "aa", "sym1": self.nid(e.addr_addr.symbol1_uuid),
                        "sym2": self.nid(e.addr_addr.symbol2_uuid), "offset": env.i64_token(e.addr_addr.offset),
                        "scale": env.i64_token(e.addr_addr.scale), "attrs": attrs}
            return {"key": k, "kind": "none", "id": eid}

        def interval(v):
            vid = self.nid(v.uuid)
            return {"uuid": vid, "has_address": bool(v.has_address),
                    "address": (v.address - env.base) if v.has_address else v.address, "size": v.size,
                    "contents": list(v.contents), "blocks": [block(b) for b in v.blocks],
                    "symx": [expr(vid, k, e) for k, e in v.symbolic_expressions.items()]}

        def section(x):
            return {"uuid": self.nid(x.uuid), "name": env.str_token(x.name),
                    "flags": [env.flag_token(f) for f in x.section_flags],
                    "intervals": [interval(v) for v in x.byte_intervals]}

        def symbol(y):
            which = y.WhichOneof("optional_payload")
            if which == "value":
                p, v = "value", "#%d" % y.value
            elif which == "referent_uuid":
                p, v = "referent", self.nid(y.referent_uuid)
            else:
                p, v = "none", "none"
            return {"uuid": self.nid(y.uuid), "name": env.from_name(y.name), "at_end": "T" if y.at_end else "F",
                    "payload": p, "value": v}

        def module(m):
            return {"uuid": self.nid(m.uuid),
                    "scal": {"name": env.str_token(m.name), "binary_path": env.str_token(m.binary_path),
                             "isa": s.token("ISA", m.isa), "file_format": s.token("FileFormat", m.file_format),
                             "byte_order": s.token("ByteOrder", m.byte_order),
                             "preferred_addr": env.u64_token(m.preferred_addr),
                             "rebase_delta": env.i64_token(m.rebase_delta)},
                    "entry": self.nid(m.entry_point), "aux": [self._auxkey(k) for k in m.aux_data.keys()],
                    "proxies": [self.nid(p.uuid) for p in m.proxies],
                    "sections": [section(x) for x in m.sections], "symbols": [symbol(y) for y in m.symbols]}

        def edge(e):
            if e.HasField("label"):
                lab = env.label_token(e.label.type, e.label.conditional, e.label.direct)
            else:
                lab = "nolabel"
            return {"src": self.nid(e.source_uuid), "tgt": self.nid(e.target_uuid), "label": lab}

        mods = [module(m) for m in msg.modules]
        return {"content": {"uuid": self.nid(msg.uuid), "version": env.version_token(msg.version),
                            "aux": [self._auxkey(k) for k in msg.aux_data.keys()], "modules": mods,
                            "edges": [edge(e) for e in msg.cfg.edges]},
                "module_order": [m["uuid"] for m in mods],
                "vertices": [self.nid(v) for v in msg.cfg.vertices]}

    # ---- record -> protobuf (independent writer) ----------------------------------------------------
    def build_proto(self, rec, rng, vary=True):
        from gtirb.proto import IR_pb2
        from gtirb.version import PROTOBUF_VERSION
        env, s = self.env, self.s
        U = lambda n: b"" if n == "none" else (env.hidden_sym.uuid.bytes if n == "HIDDEN" else env.uuid(n).bytes)  # noqa
        c = rec["content"]
        msg = IR_pb2.IR()
        msg.uuid = U(c["uuid"])
        msg.version = env.to_version(c.get("version", "CUR"))
        for k in c["aux"]:
            msg.aux_data["k%d" % k].type_name = "uint64_t"
            msg.aux_data["k%d" % k].data = (7).to_bytes(8, "little")
        by_id = {m["uuid"]: m for m in c["modules"]}
        for mid in rec["module_order"]:
            m = by_id[mid]
            pm = msg.modules.add()
            pm.uuid = U(mid)
            sc = m["scal"]
            pm.name = env.to_str(sc["name"])
            pm.binary_path = env.to_str(sc["binary_path"])
            pm.isa = s.number("ISA", sc["isa"])
            pm.file_format = s.number("FileFormat", sc["file_format"])
            pm.byte_order = s.number("ByteOrder", sc["byte_order"])
            pm.preferred_addr = env.to_u64(sc["preferred_addr"])
            pm.rebase_delta = env.to_i64(sc["rebase_delta"])
            if m["entry"] != "none":
                pm.entry_point = U(m["entry"])
            for k in m["aux"]:
                pm.aux_data["k%d" % k].type_name = "uint64_t"
                pm.aux_data["k%d" % k].data = (7).to_bytes(8, "little")
            for p in self._shuffle(m["proxies"], rng, vary):
                pm.proxies.add().uuid = U(p)
            for y in self._shuffle(m["symbols"], rng, vary):
                py = pm.symbols.add()
                py.uuid = U(y["uuid"])
                py.name = env.to_name(y["name"])
                py.at_end = y["at_end"] == "T"
                if y["payload"] == "value":
                    py.value = int(y["value"][1:])
                elif y["payload"] == "referent":
                    py.referent_uuid = U(y["value"])
            for x in self._shuffle(m["sections"], rng, vary):
                px = pm.sections.add()
                px.uuid = U(x["uuid"])
                px.name = env.to_str(x["name"])
                flags = [env.flag_number(f) for f in x["flags"]]
                if vary and flags and rng.random() < 0.3:
                    flags.append(flags[0])          # a repeated flag is still the same set
                px.section_flags.extend(self._shuffle(flags, rng, vary))
                for v in self._shuffle(x["intervals"], rng, vary):
                    pv = px.byte_intervals.add()
                    pv.uuid = U(v["uuid"])
                    pv.has_address = v["has_address"]
                    if v["has_address"]:
                        pv.address = env.base + v["address"]
                    elif vary and rng.random() < 0.5:
                        pv.address = 12345             # meaningless without has_address
                    pv.size = v["size"]
                    pv.contents = bytes(v["contents"])
                    for b in self._shuffle(v["blocks"], rng, vary):
                        pb = pv.blocks.add()
                        pb.offset = b["offset"]
                        if b["kind"] == "code":
                            pb.code.uuid = U(b["uuid"])
                            pb.code.size = b["size"]
                            pb.code.decode_mode = s.number("DecodeMode", b["decode_mode"])
                        else:
                            pb.data.uuid = U(b["uuid"])
                            pb.data.size = b["size"]
                    for e in v["symx"]:
                        pe = pv.symbolic_expressions[e["key"]]
                        if e["kind"] == "ac":
                            pe.addr_const.offset = env.to_i64(e["offset"])
                            pe.addr_const.symbol_uuid = U(e["sym1"])
                        else:
                            pe.addr_addr.offset = env.to_i64(e["offset"])
                            pe.addr_addr.scale = env.to_i64(e["scale"])
                            pe.addr_addr.symbol1_uuid = U(e["sym1"])
                            pe.addr_addr.symbol2_uuid = U(e["sym2"])
                        pe.attribute_flags.extend(env.attr_number(a) for a in self._shuffle(e["attrs"], rng, vary))
        verts = list(rec["vertices"])
        if vary:
            k = rng.random()
            if k < 0.3:
                verts = []                          # the vertex list carries no information the loader needs
            elif k < 0.6:
                verts = verts + verts[:1]
        msg.cfg.vertices.extend(U(v) for v in self._shuffle(verts, rng, vary))
        edges = list(c["edges"])
        if vary and edges and rng.random() < 0.3:
            edges.append(edges[0])                  # a repeated edge is still the same set
        for e in self._shuffle(edges, rng, vary):
            pe = msg.cfg.edges.add()
            pe.source_uuid = U(e["src"])
            pe.target_uuid = U(e["tgt"])
            if e["label"] != "nolabel":
                t, cnd, d = env.label_fields(e["label"])
                pe.label.type = t
                pe.label.conditional = cnd
                pe.label.direct = d
                if not (t or cnd or d):
                    pe.label.SetInParent()          # present label with all-default fields
        return msg

    @staticmethod
    def _shuffle(xs, rng, vary):
        xs = list(xs)
        if vary:
            rng.shuffle(xs)
        return xs


def file_bytes(msg, version=None, magic=b"GTIRB", reserved=b"\0\0"):
    from gtirb.version import PROTOBUF_VERSION
    v = PROTOBUF_VERSION if version is None else version
    return magic + reserved + bytes([v]) + msg.SerializeToString()


def check_identity(gtirb, ir):
    """C09: every reference in a loaded IR is the very object reachable through containment"""
    reach = {}
    for m in ir.modules:
        reach[m.uuid] = m
        for p in m.proxies:
            reach[p.uuid] = p
        for y in m.symbols:
            reach[y.uuid] = y
        for s in m.sections:
            reach[s.uuid] = s
            for v in s.byte_intervals:
                reach[v.uuid] = v
                for b in v.blocks:
                    reach[b.uuid] = b
    bad = []

    def same(o, what):
        if o is not None and reach.get(o.uuid) is not o:
            bad.append(what)

    for m in ir.modules:
        same(m.entry_point, "entry point of %s" % m.uuid)
        for y in m.symbols:
            same(y.referent, "referent of %s" % y.uuid)
        for v in m.byte_intervals:
            for k, e in v.symbolic_expressions.items():
                for y in e.symbols:
                    same(y, "symbol of expression %s+%d" % (v.uuid, k))
    for e in ir.cfg:
        same(e.source, "edge source")
        same(e.target, "edge target")
    return bad
