"""C15: AuxData type names parse exactly per the grammar (spec/TypeName.tla)."""
import json
import os
import random

from . import tlc
from .build import MachineryFailure, workdir

CHARS = {97, 98, 60, 62, 44}
SMALL = {97, 60, 62, 44}
INVS = ["RecogniserIsParser", "ParserIsGrammar", "TreeIsGrammarTree", "Unambiguous", "PrintsBack"]


def tree_of(t):
    """SubtypeTree -> the spec's record shape (names as code-point lists)"""
    return {"name": [ord(c) for c in t.name], "subs": [tree_of(x) for x in t.subtypes]}


def parse(gtirb, s):
    from gtirb.serialization import Serialization, TypeNameError
    try:
        t = Serialization._parse_type(s)
    except TypeNameError:
        return {"ok": False, "exc": "TypeNameError"}
    except RecursionError:
        return {"ok": False, "exc": "RecursionError"}
    except Exception as e:  # any other exception is a violation in itself
        return {"ok": False, "exc": type(e).__name__}
    return {"ok": True, "tree": tree_of(t)}


def viol(s, expected, observed, kind):
    return {"kind": kind, "props": ["C15"], "op": {"name": "_parse_type", "type_name": s},
            "expected": expected, "observed": observed, "history": [],
            "signature": "typename:%s" % kind}


def exhaustive(ctx, maxlen, chars=None):
    chars = chars or CHARS
    cfg = tlc.render_cfg({"MaxLen": maxlen, "Chars": chars}, invariants=INVS + ["EmitS"])
    r = tlc.run("TypeName", cfg, workers=1, timeout=3000)
    if r.errors:
        raise MachineryFailure("TypeName: %s" % r.errors[0][:1500])
    ctx.states += r.distinct
    ctx.transitions += r.generated
    if r.violation:
        ctx.violations.append(viol("", "the three formulations of the grammar agree", r.violation[:2000], "spec-invariant"))
    acc = bad = 0
    from gtirb.serialization import Serialization
    ser = Serialization()
    for rec in r.records:
        s = "".join(map(chr, rec["s"]))
        got = parse(ctx.gtirb, s)
        ctx.evaluations += 1
        if rec["ok"]:
            acc += 1
            if not got["ok"]:
                ctx.violations.append(viol(s, {"accepted": True, "tree": rec["tree"]}, got, "rejects-valid"))
            elif got["tree"] != rec["tree"]:
                ctx.violations.append(viol(s, rec["tree"], got["tree"], "wrong-tree"))
        else:
            if got["ok"]:
                ctx.violations.append(viol(s, "TypeNameError", got, "accepts-invalid"))
            elif got["exc"] != "TypeNameError":
                ctx.violations.append(viol(s, "TypeNameError", got, "wrong-exception"))
            # the public entry points must reject as well
            if acc % 50 == 0:
                try:
                    ser.decode(b"", s)
                    ctx.violations.append(viol(s, "TypeNameError", "decode() accepted", "accepts-invalid"))
                except Exception as e:
                    if type(e).__name__ != "TypeNameError":
                        ctx.violations.append(viol(s, "TypeNameError", type(e).__name__, "wrong-exception"))
    ctx.traces += len(r.records)
    ctx.stages.append({"stage": "exhaustive-strings", "max_length": maxlen, "alphabet": " ".join(map(chr, sorted(chars))) if all(isinstance(c, int) for c in chars) else sorted(map(str, chars)),
                       "strings": len(r.records), "accepted_by_grammar": acc, "exhaustive": True,
                       "spec_invariants": INVS})
    if r.records:
        good = [x for x in r.records if x["ok"] and x["tree"]["subs"]]
        ctx.samples.append({"string": "".join(map(chr, (good or r.records)[-1]["s"])), "spec": (good or r.records)[-1]})
    ctx.log("TypeName exhaustive <= %d: %d strings, %d accepted" % (maxlen, len(r.records), acc))


NAME_ALPHABET = ["a", "b", "Z", "9", "_", " ", "é", "中", "\U0001f600", "-", ".", ":", "[", "("]


def gen_valid(rng, depth, maxargs=3):
    name = "".join(rng.choice(NAME_ALPHABET) for _ in range(rng.randint(1, 4)))
    if depth <= 0 or rng.random() < 0.3:
        return name
    return name + "<" + ",".join(gen_valid(rng, depth - rng.randint(1, max(1, depth)), maxargs)
                                 for _ in range(rng.randint(1, maxargs))) + ">"


def mutate(rng, s):
    if not s:
        return "<"
    i = rng.randrange(len(s))
    k = rng.random()
    if k < 0.35:
        return s[:i] + s[i + 1:]
    if k < 0.7:
        return s[:i] + rng.choice("<>,") + s[i:]
    if k < 0.85:
        return s[:i] + rng.choice("<>,ab") + s[i + 1:]
    return s + rng.choice(["<", ">", ",", ">>", "<a", ",a", "a"])


def judged(ctx, n, maxdepth):
    """long / deep / unusual names: the code's verdict and tree are judged by TLC"""
    rng = random.Random(ctx.seed + 5)
    path = os.path.join(workdir("gtirbverif-tn-"), "names.ndjson")
    recs = []
    with open(path, "w") as fh:
        for i in range(n):
            s = gen_valid(rng, rng.randint(0, maxdepth))
            for _ in range(rng.choice([0, 0, 1, 1, 2])):
                s = mutate(rng, s)
            if len(s) > 400:
                continue
            got = parse(ctx.gtirb, s)
            rec = {"s": [ord(c) for c in s], "ok": got["ok"], "tree": got.get("tree", {"name": [], "subs": []})}
            recs.append((s, got))
            fh.write(json.dumps(rec) + "\n")
    cfg = tlc.render_cfg({"MaxLen": 0, "Chars": CHARS}, spec="JSpec", invariants=["Judge"], postcondition="Done")
    r = tlc.run("TypeNameJudge", cfg, workers=4, env_extra={"JUDGE_FILE": path}, timeout=3000)
    if r.errors or r.violation:
        raise MachineryFailure("TypeNameJudge: %s" % (r.errors or [r.violation])[0][:1500])
    if sum(x.get("judged", 0) for x in r.records) != len(recs):
        raise MachineryFailure("TypeNameJudge judged %s of %d" % (r.records[-1:], len(recs)))
    nacc = sum(1 for _, g in recs if g["ok"])
    for b in [x for x in r.records if "bad" in x]:
        s, got = recs[b["bad"] - 1]
        ctx.violations.append(viol(s, {"spec_accepts": b["spec_accepts"]}, got,
                                   "accepts-invalid" if got["ok"] and not b["spec_accepts"] else
                                   "rejects-valid" if b["spec_accepts"] and not got["ok"] else "wrong-tree"))
    for s, got in recs:
        if not got["ok"] and got["exc"] != "TypeNameError":
            ctx.violations.append(viol(s, "TypeNameError or a tree", got, "wrong-exception"))
    ctx.evaluations += len(recs)
    ctx.traces += len(recs)
    ctx.stages.append({"stage": "judge-generated-names", "names": len(recs), "accepted_by_code": nacc,
                       "max_nesting": maxdepth, "max_length": max((len(s) for s, _ in recs), default=0)})
    if recs:
        ctx.samples.append({"string": max((s for s, g in recs if g["ok"]), key=len, default="")[:200]})
    ctx.log("TypeName judged: %d names (%d accepted by the code), %d rejected by TLC" % (
        len(recs), nacc, len([x for x in r.records if "bad" in x])))


def run(ctx):
    exhaustive(ctx, 7 if ctx.quick() else 8)
    exhaustive(ctx, 9 if ctx.quick() else 10, chars=SMALL)    # one name character only: two lengths further
    judged(ctx, 3000 if ctx.quick() else 40000, 12 if ctx.quick() else 30)
    ctx.exhaustive = False
    ctx.assumptions += ["nesting depth of generated names <= 30 (Python's recursion limit is environment, DESIGN "
                        "section 4 rule 4)", "names over a 5-character alphabet for the exhaustive part"]
    return "model_checking", ("all strings up to the stated length over {a,b,<,>,','} enumerated by TLC (one state per "
                              "string) with the grammar's verdict and tree, each parsed by the code; plus seeded "
                              "long/deep/unicode names and their mutations parsed by the code and judged by TLC")
