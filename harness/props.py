"""Per-property plans: which specifications/configurations decide each property."""
import json

from . import configs, core, stages, universe, replay
from .core import parallel, run_tlc_config

PLANS = {}


def plan(*ids):
    def deco(fn):
        for i in ids:
            PLANS[i] = fn
        return fn
    return deco


REL = ["Rel_sec", "Rel_sym", "Rel_prx", "Rel_biv", "Rel_blk"]


def tree_stages(ctx):
    """containment, UUID table and owning collections (C03 C04 C16)"""
    names = REL + (["ModListQ"] if ctx.quick() else ["ModList"])
    ctx.log("TLC: exhaustive transition dumps of", names)
    results = parallel(lambda n: run_tlc_config(n, emit=True), names)
    for n, r in zip(names, results):
        stages.stage_graph(ctx, n, result=r)
    if ctx.quick():
        stages.stage_mc(ctx, "TreeQ")
        stages.stage_sim(ctx, "Tree", num=300, depth=30)
    else:
        stages.stage_mc(ctx, "Tree", timeout=3000)
        stages.stage_sim(ctx, "Tree", num=4000, depth=40)


RULE_WALK = ("cases are transitions of the bounded TLA+ model (Gtirb.tla under the listed configurations), each "
             "printed by TLC with its expected result and post-state and executed on real gtirb objects built "
             "from /repo; a case is non-trivial when it is a distinct (state, operation, arguments) triple")


@plan("C03", "C04", "C16")
def p_tree(ctx):
    tree_stages(ctx)
    ctx.assumptions += [
        "UUIDs are pairwise distinct inside the universe (C03 scope)",
        "list item/slice assignment never receives a module that stays elsewhere in the same list, nor "
        "duplicate values (DESIGN section 4 rule 4)",
        "intervaltree, sortedcontainers, networkx and protobuf are trusted",
    ]
    return "model_checking", RULE_WALK


def replay_file(gtirb, prop, path):
    v = json.load(open(path))
    consts = configs.get(v["config"])
    base = int(v.get("base", "0"))
    env = universe.Env(gtirb, consts, base=base)
    print("replaying %d operations of configuration %s (base %s)" % (len(v["history"]), v["config"], base))
    obs = None
    for op in v["history"]:
        obs = env.step(op)
        print("  %s -> %s" % (json.dumps(op), json.dumps(obs, default=str)[:200]))
    print("expected:", json.dumps(v["expected"], default=str)[:1000])
    if v["kind"] == "result":
        same = replay.norm_res(v["op"], obs) == replay.norm_res(v["op"], v["expected"])
        print("observed:", json.dumps(obs, default=str)[:1000])
    else:
        try:
            st = env.project(sorted({f[0] for f in v["expected"]}))
            got = [[f[0], f[1], universe.canon_field(f[0], st[f[0]]).get(f[1]) if "." not in f[1] else None] for f in v["expected"]]
        except universe.Unprojectable as ex:
            got = str(ex)
        print("observed:", json.dumps(got, default=str)[:1000])
        same = all(g[2] == e[2] for g, e in zip(got, v["expected"]) if g[2] is not None) if isinstance(got, list) else False
    if same:
        print("the divergence does not reproduce on the current tree")
        return 0
    print("VIOLATION property=%s replay=%s" % (prop, path))
    return 1
