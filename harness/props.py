"""Per-property plans: which specifications/configurations decide each property."""
import json

from . import configs, core, stages, universe, replay
from .core import parallel, run_tlc_config

PLANS = {}


def plan(*ids):
    def deco(fn):
        for i in ids:
            PLANS[i] = fn
        return fn
    return deco


REL = ["Rel_sec", "Rel_sym", "Rel_prx", "Rel_biv", "Rel_blk"]


def tree_stages(ctx):
    """containment, UUID table and owning collections (C03 C04 C16)"""
    names = REL + [r + "_same" for r in REL] + ["Rel_sec_other", "Rel_blk_other"] + (
        [] if ctx.quick() else ["Rel_sym_other", "Rel_prx_other", "Rel_biv_other"]) + (
        ["ModListQ"] if ctx.quick() else ["ModList"]) + ["RelX"]
    ctx.log("TLC: exhaustive transition dumps of", names)
    results = parallel(lambda n: run_tlc_config(n, emit=True), names)
    for n, r in zip(names, results):
        stages.stage_graph(ctx, n, result=r)
    stages.stage_graph(ctx, "Share", result=run_tlc_config("Share", emit=True, constraints=["Depth3"]))
    if ctx.quick():
        stages.stage_mc(ctx, "TreeQ")
        stages.stage_sim(ctx, "Tree", num=300, depth=30)
    else:
        stages.stage_mc(ctx, "Tree", timeout=3000)
        stages.stage_sim(ctx, "Tree", num=600, depth=30)     # (depth 40 made the simulator several times slower per step)


RULE_WALK = ("cases are transitions of the bounded TLA+ model (Gtirb.tla under the listed configurations), each "
             "printed by TLC with its expected result and post-state and executed on real gtirb objects built "
             "from /repo; a case is non-trivial when it is a distinct (state, operation, arguments) triple")


@plan("C03", "C04", "C16")
def p_tree(ctx):
    tree_stages(ctx)
    from . import driver
    driver.stage_traces(ctx, "TraceTree", n_traces=30 if ctx.quick() else 300, length=60 if ctx.quick() else 100)
    if ctx.prop in ("C03", "C04"):
        stages.stage_repo_tests(ctx)
    if ctx.prop == "C16":
        names = ["SymX"]
        for n in names:
            stages.stage_graph(ctx, n)
    ctx.assumptions += [
        "UUIDs are pairwise distinct inside the universe (C03 scope)",
        "list item/slice assignment never receives a module that stays elsewhere in the same list, nor "
        "duplicate values (DESIGN section 4 rule 4)",
        "intervaltree, sortedcontainers, networkx and protobuf are trusted",
    ]
    return "model_checking", RULE_WALK


RULE_LOOKUP = (RULE_WALK + "; lookups: after every executed step a seeded batch of lookups (all methods x all scopes, "
               "points and (start, stop, step) ranges biased to the boundaries of the blocks/intervals present) is "
               "answered by the real objects and every answer is judged by TLC against the fresh-scan operators of "
               "Gtirb.tla (each member once, Must subset answer subset May)")


def geom_stages(ctx, lazy=False):
    names = ["GeomB1", "GeomB2", "GeomI"] + ([] if ctx.quick() else ["GeomB2T"])
    results = parallel(lambda n: run_tlc_config(n, emit=True), names)
    bases = (0, core.BASES["2^64-40"]) if ctx.quick() else tuple(core.BASES.values())
    for n, r in zip(names, results):
        stages.stage_graph_lookups(ctx, n, result=r, bases=bases if n != "GeomB2T" else (0,),
                                   per_step=6 if ctx.quick() else 10)
    stages.stage_sim_lookups(ctx, "GeomSim", num=150 if ctx.quick() else 1200, depth=30 if ctx.quick() else 50,
                             bases=bases[:2] if ctx.quick() else bases, per_step=10)
    stages.stage_sim_lookups(ctx, "GeomBig", num=200 if ctx.quick() else 1500, depth=40, bases=bases[:1],
                             per_step=16, p_lookup=0.35)
    from . import driver
    driver.stage_traces(ctx, "TraceData", n_traces=30 if ctx.quick() else 300, length=60 if ctx.quick() else 100)
    # the deferred index maintenance under set-interface edits, with every answer judged (the twin comparison is C12's)
    for n in ("LazySetI", "LazyMove"):
        run_tlc_config(n, emit=True)
        stages.stage_lazy(ctx, n, max_run=150)


@plan("C05", "C06")
def p_geom(ctx):
    geom_stages(ctx)
    ctx.assumptions += [
        "section/module/IR scope and stepped 'on' queries are judged with the sandwich Must <= answer <= May "
        "(DESIGN section 4 rule 3)",
        "addresses are abstract small naturals shifted by BASE in {0, 2^32-3, 2^63, 2^64-40}",
    ]
    return "model_checking", RULE_LOOKUP


@plan("C12")
def p_lazy(ctx):
    names = ["LazyB", "LazyIQ", "LazyMove", "LazySetI"] if ctx.quick() else ["LazyB", "LazyI", "LazyIT", "LazyMove", "LazySetI"]
    parallel(lambda n: run_tlc_config(n, emit=True), names)
    for n in names:
        stages.stage_lazy(ctx, n, max_run=150, bases=(0,) if ctx.quick() else (0, core.BASES["2^64-40"]))
    stages.stage_sim_lookups(ctx, "LazySim", num=150 if ctx.quick() else 1200, depth=40, per_step=12, p_lookup=0.15)
    if not stages.WARM:
        lazy_index_stage(ctx)
        lazy_class_stage(ctx)
        from . import driver
        driver.stage_traces(ctx, "TraceData", n_traces=30 if ctx.quick() else 300, length=60 if ctx.quick() else 100)
    ctx.assumptions.append("the hook-reported get() branch is coverage evidence only; verdicts use public answers")
    return "model_checking", RULE_LOOKUP + "; schedules: the spec's Lookup actions are interleaved with edits in every order the bounded model allows"


def lazy_index_stage(ctx):
    """role A for the design of LazyIntervalTree itself (spec/LazyIndex.tla)"""
    from . import tlc
    from .build import MachineryFailure
    cfg = tlc.render_cfg({"Vals": {"b1", "b2"}, "Offs": {0, 1} if ctx.quick() else {0, 1, 3}, "Sizes": {0, 2},
                          "MaxEv": 4 if ctx.quick() else 5, "Members0": set(), "GetWeight": 1},
                         invariants=["LazyInv", "GetIsFresh"], constraints=["Bound"])
    r = tlc.run("LazyIndex", cfg, workers=16, coverage=True, want_records=False, heap="8g")
    if r.errors:
        raise MachineryFailure("LazyIndex: %s" % r.errors[0][:1000])
    ctx.states += r.distinct
    ctx.transitions += r.generated
    if r.violation:
        ctx.violations.append({"kind": "invariant", "props": ["C12"], "op": {"name": "LazyInv"}, "expected": "holds",
                               "observed": r.violation[:2000], "history": [], "signature": "invariant:LazyIndex"})
    ctx.stages.append({"stage": "model-check", "config": "LazyIndex.tla", "distinct_states": r.distinct,
                       "transitions": r.generated, "depth": r.depth,
                       "actions_never_taken": sorted(k for k, v in r.coverage.items() if v[1] == 0)})
    ctx.log("mc LazyIndex: %d states, %d transitions" % (r.distinct, r.generated))


class LazyClassEnv:
    """a real gtirb.lazyintervaltree.LazyIntervalTree over a real collection, driven by LazyIndex.tla"""

    class V:
        def __init__(self, name):
            self.name, self.has, self.off, self.sz = name, True, 0, 0

    def __init__(self, vals):
        from gtirb.lazyintervaltree import LazyIntervalTree
        from intervaltree import Interval
        self.vals = {n: self.V(n) for n in vals}
        self.coll = set()
        self.tree = LazyIntervalTree(self.coll, lambda v: Interval(v.off, v.off + v.sz + 1, v) if v.has else None)

    def step(self, op):
        n = op["name"]
        if n == "add":
            v = self.vals[op["v"]]
            self.tree.add(v)
            self.coll.add(v)
        elif n == "discard":
            v = self.vals[op["v"]]
            self.tree.discard(v)
            self.coll.discard(v)
        elif n == "setkey":
            v = self.vals[op["v"]]
            if v in self.coll:
                self.tree.discard(v)
            v.has, v.off, v.sz = op["h"], op["o"], op["s"]
            if v in self.coll:
                self.tree.add(v)
        elif n == "get":
            return sorted([iv.begin, iv.end, iv.data.name] for iv in self.tree.get())
        return "none"


def lazy_class_stage(ctx):
    """spec -> code for the class itself: random behaviours of LazyIndex.tla (5 values, long event queues)
    replayed on a real LazyIntervalTree; every get() must return the materialisation the spec computes"""
    import glob
    import os
    from . import tlc, tlaparse
    from .build import MachineryFailure
    try:
        import gtirb.lazyintervaltree  # noqa
    except Exception as e:   # an implementation without this class is not wrong (DESIGN rule 1)
        ctx.stages.append({"stage": "lazy-class-replay", "skipped": "no gtirb.lazyintervaltree: %s" % e})
        return
    vals = {"b1", "b2", "b3", "b4", "b5", "b6"}
    cfg = tlc.render_cfg({"Vals": vals, "Offs": {0, 1, 3}, "Sizes": {0, 2}, "MaxEv": 9, "Members0": vals - {"b6"},
                          "GetWeight": 30},
                         invariants=["LazyInv", "GetIsFresh"], constraints=["Bound"])
    num = 400 if ctx.quick() else 6000
    r = tlc.run("LazyIndex", cfg, workers=1, simulate=num, depth=60, seed=ctx.seed + 9, want_records=False)
    if r.errors or r.violation:
        raise MachineryFailure("LazyIndex simulate: %s" % (r.errors or [r.violation])[0][:800])
    gets = steps = 0
    branches = {}
    paths = sorted(glob.glob(os.path.join(r.workdir, "sim", "b_*")))
    if getattr(r, "sim_aborted", False) and paths:
        paths = sorted(paths, key=os.path.getmtime)[:-1]
    for path in [x for x in paths if os.path.getsize(x) > 0]:
        env = LazyClassEnv(vals)
        for v0 in sorted(vals - {"b6"}):
            env.step({"name": "add", "v": v0})
        hist = []
        for st in tlaparse.parse_behaviour(open(path).read())[1:]:
            op = st["op"]
            hist.append({k: v for k, v in op.items() if k != "res"})
            try:
                got = env.step(op)
            except Exception as e:
                got = {"exc": type(e).__name__}
            steps += 1
            if op["name"] == "get":
                gets += 1
                branches[op["branch"]] = branches.get(op["branch"], 0) + 1
                want = sorted(op["res"])
                if got != want:
                    ctx.violations.append({"kind": "lazy-class", "props": ["C12"], "op": hist[-1], "expected": want,
                                           "observed": got, "history": hist, "config": "LazyIndex.tla",
                                           "signature": "lazyclass:get/%s" % op["branch"]})
                    break
        else:
            ctx.traces += 1
    ctx.evaluations += steps
    ctx.transitions += steps
    ctx.stages.append({"stage": "lazy-class-replay", "spec": "LazyIndex.tla", "behaviours": num, "steps": steps,
                       "get_calls_compared": gets, "spec_branches": branches, "values": 6, "max_pending_events": 9})
    ctx.log("LazyIndex class replay: %d behaviours, %d get() compared, branches %s" % (num, gets, branches))


@plan("C10")
def p_sym(ctx):
    names = ["Sym1", "Sym2", "Sym3"]
    results = parallel(lambda n: run_tlc_config(n, emit=True), names)
    for n, r in zip(names, results):
        stages.stage_graph(ctx, n, result=r)
    if not ctx.quick():
        stages.stage_mc(ctx, "SymT", timeout=3000)
    stages.stage_sim(ctx, "SymSim", num=150 if ctx.quick() else 1200, depth=30)
    from . import driver
    driver.stage_traces(ctx, "TraceTree", n_traces=30 if ctx.quick() else 300, length=60 if ctx.quick() else 100)
    return "model_checking", RULE_WALK


@plan("C11")
def p_cfg(ctx):
    names = ["Cfg1", "Cfg2", "CfgMove"]
    results = parallel(lambda n: run_tlc_config(n, emit=True), names)
    for n, r in zip(names, results):
        stages.stage_graph(ctx, n, result=r)
    if not ctx.quick():
        # three labels: 1.8 million transitions -- simulated, not dumped (the dump alone needs several GB in the harness)
        stages.stage_sim(ctx, "CfgT", num=1500, depth=40)
    from . import driver
    driver.stage_traces(ctx, "TraceData", n_traces=30 if ctx.quick() else 300, length=60 if ctx.quick() else 100)
    ctx.assumptions.append("nodes compared by identity, labels by value; label tokens map to fixed EdgeLabel values")
    return "model_checking", RULE_WALK


@plan("C19")
def p_bytes(ctx):
    names = ["BytesQ"] if ctx.quick() else ["BytesQ", "Bytes"]
    results = parallel(lambda n: run_tlc_config(n, emit=True), names)
    for n, r in zip(names, results):
        stages.stage_graph_lookups(ctx, n, result=r, per_step=6, always_blocks=True,
                                   bases=(0, core.BASES["2^64-40"], core.TOP))
    stages.stage_graph(ctx, "Share", result=run_tlc_config("Share", emit=True, constraints=["Depth3"]))   # two intervals, one buffer
    from . import driver
    driver.stage_traces(ctx, "TraceData", n_traces=30 if ctx.quick() else 300, length=60 if ctx.quick() else 100)
    return "model_checking", RULE_LOOKUP


@plan("C13")
def p_symx(ctx):
    names = ["SymX", "SymX2"] if ctx.quick() else ["SymX", "SymX2", "SymX2T"]
    results = parallel(lambda n: run_tlc_config(n, emit=True), names)
    for n, r in zip(names, results):
        stages.stage_graph_lookups(ctx, n, result=r, per_step=8,
                                   bases=(0, core.BASES["2^64-40"]) if ctx.quick() else tuple(core.BASES.values()))
    stages.stage_sim_lookups(ctx, "SymXBig", num=200 if ctx.quick() else 1500, depth=40, bases=(0,), per_step=12, p_lookup=0.35)
    from . import driver
    driver.stage_traces(ctx, "TraceData", n_traces=30 if ctx.quick() else 300, length=60 if ctx.quick() else 100)
    return "model_checking", RULE_LOOKUP


@plan("C15")
def p_typename(ctx):
    from . import p_typename as m
    return m.run(ctx)


@plan("C07", "C08")
def p_auxwire(ctx):
    from . import p_aux as m
    return m.run(ctx)


@plan("C14")
def p_auxlife(ctx):
    from . import p_auxlife as m
    return m.run(ctx)


def _proto(fn):
    def run(ctx):
        from . import p_proto
        return getattr(p_proto, fn)(ctx)
    return run


PLANS["C01"] = _proto("plan_c01")
PLANS["C02"] = _proto("plan_c02")
PLANS["C09"] = _proto("plan_c09")
PLANS["C17"] = _proto("plan_c17")
PLANS["C18"] = _proto("plan_c18")


def replay_file(gtirb, prop, path):
    v = json.load(open(path))
    if v.get("op", {}).get("name") == "_parse_type":
        from . import p_typename
        s = v["op"]["type_name"]
        got = p_typename.parse(gtirb, s)
        print("type name %r: expected %s; the current tree gives %s" % (s, json.dumps(v["expected"])[:300], json.dumps(got)[:300]))
        exp_ok = isinstance(v["expected"], dict) and v["expected"].get("accepted") or isinstance(v["expected"], dict) and "name" in v["expected"]
        same = (got["ok"] == bool(exp_ok)) and (not got["ok"] or "tree" not in v["expected"] or got["tree"] == v["expected"].get("tree", got["tree"]))
        if same and (got["ok"] or got.get("exc") == "TypeNameError"):
            print("the divergence does not reproduce on the current tree")
            return 0
        print("VIOLATION property=%s replay=%s" % (prop, path))
        return 1
    if "config" not in v or v["config"] not in configs.CONFIGS:
        print("stored case (kind %s): %s" % (v.get("kind"), json.dumps(v.get("op"), default=str)[:600]))
        print("expected:", json.dumps(v.get("expected"), default=str)[:800])
        print("observed:", json.dumps(v.get("observed"), default=str)[:800])
        print("this kind of case is re-executed by re-running the check: ./check %s --tier quick" % prop)
        print("VIOLATION property=%s replay=%s" % (prop, path))
        return 1
    consts = configs.get(v["config"])
    base = int(v.get("base", "0"))
    env = universe.Env(gtirb, consts, base=base)
    print("replaying %d operations of configuration %s (base %s)" % (len(v["history"]), v["config"], base))
    obs = None
    from . import judge
    rec = judge.Recorder(consts)
    for op in v["history"]:
        if op["name"] == "query":
            try:
                obs = rec.ask(env, op["f"], op["x"], op["q"], op["point"])
            except universe.Unprojectable:
                raise
            except Exception as e:   # noqa
                obs = {"exc": type(e).__name__}
        else:
            obs = env.step(op)
        print("  %s -> %s" % (json.dumps(op), json.dumps(obs, default=str)[:200]))
    if v["kind"] == "lookup":
        q = v["op"]["q"]
        got = rec.ask(env, v["op"]["name"], v["op"]["x"], q, q[1] == q[0] + 1 and q[2] == 1)
        key = lambda a: sorted(map(json.dumps, a))  # noqa
        must, may = v["expected"]["must"], v["expected"]["may"]
        ok = len(set(key(got))) == len(got) and set(key(must)) <= set(key(got)) <= set(key(may))
        print("lookup %s -> %s; the spec said must=%s may=%s" % (json.dumps(v["op"]), json.dumps(got), json.dumps(must), json.dumps(may)))
        if ok:
            print("the divergence does not reproduce on the current tree")
            return 0
        print("VIOLATION property=%s replay=%s" % (prop, path))
        return 1
    if v["kind"] == "lookup-raised":
        q = v["op"]["q"]
        try:
            got = rec.ask(env, v["op"]["name"], v["op"]["x"], q, q[1] == q[0] + 1 and q[2] == 1)
        except Exception as e:   # noqa
            print("lookup %s raised %s: %s" % (json.dumps(v["op"]), type(e).__name__, e))
            print("VIOLATION property=%s replay=%s" % (prop, path))
            return 1
        print("lookup %s -> %s" % (json.dumps(v["op"]), json.dumps(got)))
        print("the divergence does not reproduce on the current tree")
        return 0
    if v["kind"] not in ("result", "state"):
        print("stored case (kind %s): %s" % (v.get("kind"), json.dumps(v.get("op"), default=str)[:600]))
        print("expected:", json.dumps(v.get("expected"), default=str)[:800])
        print("observed:", json.dumps(v.get("observed"), default=str)[:800])
        print("this kind of case is re-executed by re-running the check: ./check %s --tier quick" % prop)
        print("VIOLATION property=%s replay=%s" % (prop, path))
        return 1
    print("expected:", json.dumps(v["expected"], default=str)[:1000])
    if v["kind"] == "result":
        same = replay.norm_res(v["op"], obs) == replay.norm_res(v["op"], v["expected"])
        print("observed:", json.dumps(obs, default=str)[:1000])
    else:
        try:
            st = env.project(sorted({f[0] for f in v["expected"]}))
            got = [[f[0], f[1], universe.canon_field(f[0], st[f[0]]).get(f[1]) if "." not in f[1] else None] for f in v["expected"]]
        except universe.Unprojectable as ex:
            got = str(ex)
        print("observed:", json.dumps(got, default=str)[:1000])
        same = all(g[2] == e[2] for g, e in zip(got, v["expected"]) if g[2] is not None) if isinstance(got, list) else False
    if same:
        print("the divergence does not reproduce on the current tree")
        return 0
    print("VIOLATION property=%s replay=%s" % (prop, path))
    return 1
