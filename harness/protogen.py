"""Minimal proto3 -> *_pb2.py generator (no protoc)."""
import re, sys, os
from google.protobuf import descriptor_pb2 as D

SCALARS = {
 'double':D.FieldDescriptorProto.TYPE_DOUBLE,'float':D.FieldDescriptorProto.TYPE_FLOAT,
 'int64':D.FieldDescriptorProto.TYPE_INT64,'uint64':D.FieldDescriptorProto.TYPE_UINT64,
 'int32':D.FieldDescriptorProto.TYPE_INT32,'uint32':D.FieldDescriptorProto.TYPE_UINT32,
 'bool':D.FieldDescriptorProto.TYPE_BOOL,'string':D.FieldDescriptorProto.TYPE_STRING,
 'bytes':D.FieldDescriptorProto.TYPE_BYTES,'sint32':D.FieldDescriptorProto.TYPE_SINT32,
 'sint64':D.FieldDescriptorProto.TYPE_SINT64,'fixed32':D.FieldDescriptorProto.TYPE_FIXED32,
 'fixed64':D.FieldDescriptorProto.TYPE_FIXED64,'sfixed32':D.FieldDescriptorProto.TYPE_SFIXED32,
 'sfixed64':D.FieldDescriptorProto.TYPE_SFIXED64}

def tokenize(text):
    text = re.sub(r'//[^\n]*', '', text)
    text = re.sub(r'/\*.*?\*/', '', text, flags=re.S)
    return re.findall(r'"(?:[^"\\]|\\.)*"|[A-Za-z_][A-Za-z0-9_.]*|-?\d+|[{}=;<>,\[\]()]', text)

class P:
    def __init__(self, toks): self.t=toks; self.i=0
    def peek(self): return self.t[self.i] if self.i < len(self.t) else None
    def next(self): v=self.t[self.i]; self.i+=1; return v
    def expect(self, x):
        v=self.next()
        if v!=x: raise SyntaxError("expected %r got %r at %d" % (x,v,self.i))

def camel(s): return ''.join(p[:1].upper()+p[1:] for p in s.split('_'))

def parse_file(path, name, prefix):
    p = P(tokenize(open(path).read()))
    fd = D.FileDescriptorProto(); fd.name = name
    enums_declared = {}  # filled by caller for type resolution
    pending = []
    while p.peek() is not None:
        t = p.next()
        if t == 'syntax': p.expect('='); fd.syntax = p.next().strip('"'); p.expect(';')
        elif t == 'package': fd.package = p.next(); p.expect(';')
        elif t == 'option':
            k = p.next(); p.expect('='); v = p.next(); p.expect(';')
            if k == 'java_package': fd.options.java_package = v.strip('"')
        elif t == 'import': fd.dependency.append(prefix + p.next().strip('"')); p.expect(';')
        elif t == 'enum': parse_enum(p, fd.enum_type.add())
        elif t == 'message': parse_message(p, fd.message_type.add())
        elif t == ';': pass
        else: raise SyntaxError("unexpected %r" % t)
    return fd

def parse_enum(p, ed):
    ed.name = p.next(); p.expect('{')
    while p.peek() != '}':
        n = p.next()
        if n == ';': continue
        p.expect('='); v = ed.value.add(); v.name = n; v.number = int(p.next()); p.expect(';')
    p.expect('}')

def parse_message(p, md):
    md.name = p.next(); p.expect('{')
    while p.peek() != '}':
        t = p.next()
        if t == ';': continue
        if t == 'reserved':
            while True:
                v = p.next()
                if v.startswith('"'): md.reserved_name.append(v.strip('"'))
                else:
                    r = md.reserved_range.add(); r.start = int(v); r.end = int(v)+1
                    if p.peek() == 'to': p.next(); r.end = int(p.next())+1
                if p.peek() == ',': p.next(); continue
                break
            p.expect(';')
        elif t == 'oneof':
            od = md.oneof_decl.add(); od.name = p.next(); idx = len(md.oneof_decl)-1; p.expect('{')
            while p.peek() != '}':
                f = parse_field(p, md, p.next(), False); f.oneof_index = idx
            p.expect('}')
        elif t == 'enum': parse_enum(p, md.enum_type.add())
        elif t == 'message': parse_message(p, md.nested_type.add())
        elif t == 'repeated': parse_field(p, md, p.next(), True)
        elif t == 'map':
            p.expect('<'); kt = p.next(); p.expect(','); vt = p.next(); p.expect('>')
            fname = p.next(); p.expect('='); num = int(p.next()); p.expect(';')
            entry = md.nested_type.add(); entry.name = camel(fname)+'Entry'; entry.options.map_entry = True
            kf = entry.field.add(); kf.name='key'; kf.number=1; kf.label=1; set_type(kf, kt); pass
            vf = entry.field.add(); vf.name='value'; vf.number=2; vf.label=1; set_type(vf, vt); pass
            f = md.field.add(); f.name=fname; f.number=num; f.label=3; f.type=D.FieldDescriptorProto.TYPE_MESSAGE
            f.type_name = '@NESTED@'+entry.name
        else: parse_field(p, md, t, False)
    p.expect('}')

def jname(n):
    parts = n.split('_'); return parts[0]+''.join(x[:1].upper()+x[1:] for x in parts[1:])

def set_type(f, t):
    if t in SCALARS: f.type = SCALARS[t]
    else: f.type_name = '@REF@'+t

def parse_field(p, md, typ, repeated):
    f = md.field.add(); f.name = p.next(); p.expect('='); f.number = int(p.next()); p.expect(';')
    f.label = 3 if repeated else 1; set_type(f, typ)
    return f

def resolve(fds):
    # global symbol table
    syms = {}
    def reg_msg(pkg, md):
        full = pkg+'.'+md.name; syms[full]='M'
        for e in md.enum_type: syms[full+'.'+e.name]='E'
        for n in md.nested_type: reg_msg(full, n)
    for fd in fds:
        for e in fd.enum_type: syms[fd.package+'.'+e.name]='E'
        for m in fd.message_type: reg_msg(fd.package, m)
    def fix_msg(scope, md):
        full = scope+'.'+md.name
        for f in md.field:
            if f.type_name.startswith('@NESTED@'):
                f.type_name = '.'+full+'.'+f.type_name[8:]
            elif f.type_name.startswith('@REF@'):
                ref = f.type_name[5:]; s = full
                while True:
                    cand = (s+'.'+ref) if s else ref
                    if cand in syms: break
                    if not s: raise KeyError(ref)
                    s = s.rpartition('.')[0]
                f.type_name = '.'+cand
                f.type = D.FieldDescriptorProto.TYPE_MESSAGE if syms[cand]=='M' else D.FieldDescriptorProto.TYPE_ENUM
        for n in md.nested_type: fix_msg(full, n)
    for fd in fds:
        for m in fd.message_type: fix_msg(fd.package, m)

TEMPLATE = '''# Generated by verif protogen from {src}. DO NOT EDIT.
from google.protobuf.internal import builder as _builder
from google.protobuf import descriptor as _descriptor
from google.protobuf import descriptor_pool as _descriptor_pool
from google.protobuf import symbol_database as _symbol_database
_sym_db = _symbol_database.Default()
{imports}
DESCRIPTOR = _descriptor_pool.Default().AddSerializedFile({ser!r})
_builder.BuildMessageAndEnumDescriptors(DESCRIPTOR, globals())
_builder.BuildTopDescriptorsAndMessages(DESCRIPTOR, '{modname}', globals())
'''

def generate(proto_dir, out_pkg_dir):
    names = sorted(f[:-6] for f in os.listdir(proto_dir) if f.endswith('.proto'))
    fds = [parse_file(os.path.join(proto_dir, n+'.proto'), 'gtirb/proto/%s.proto' % n, 'gtirb/proto/') for n in names]
    resolve(fds)
    for n, fd in zip(names, fds):
        imports = '\n'.join('from gtirb.proto import %s_pb2 as _dep_%s' % (d.split('/')[-1][:-6], d.split('/')[-1][:-6]) for d in fd.dependency)
        with open(os.path.join(out_pkg_dir, n+'_pb2.py'), 'w') as f:
            f.write(TEMPLATE.format(src=n+'.proto', imports=imports, ser=fd.SerializeToString(), modname='gtirb.proto.%s_pb2' % n))
    return fds

if __name__ == '__main__':
    generate(sys.argv[1], sys.argv[2])
