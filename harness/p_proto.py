"""C01 C02 C09 C17 C18: the file format.  TLC drives (spec/Gtirb.tla: Reload, LoadFault, MsgOf, Content,
shadow) and judges returned IRs (spec/CoherentJudge.tla)."""
import io
import json
import os
import random
import subprocess
import sys

from . import configs, core, faults, protomsg, stages, universe
from .build import MachineryFailure, workdir
from .core import run_tlc_config

SWEEPS = [("scal", {"scal"}), ("tags", {"tags"}),
          ("edit", {"geom", "bytes", "sym", "entry", "symx", "parent"})]
SIM_FAMS = {"scal", "tags", "geom", "bytes", "sym", "entry", "symx", "parent", "list", "cfg.small"}


def consts_for(fams, **extra):
    base = configs.proto_base(universe.SCHEMA)
    base.update(extra)
    return configs.get("Proto", dict(base, Families=set(fams)))


def sweep_stage(ctx, name, fams, second, **kw):
    """from the initial IR: every single operation of the families, each followed by `second`"""
    c = consts_for(set(fams) | {second[0]}, SweepOps={second[1]}, SweepMode=True, **kw)
    r = run_tlc_config("Proto_" + name, emit=True, consts=c, action_constraints=["Sweep"])
    stages.stage_graph(ctx, "Proto_" + name, consts=c, result=r)
    return c


def drain_pending(ctx, what):
    """IRs accepted from faulty files: TLC judges their coherence"""
    if os.environ.get("VERIF_WARM"):
        return
    pend = list(universe.PENDING_IR)
    del universe.PENDING_IR[:]
    bad, states = faults.judge_coherence([r for _, r in pend])
    ctx.states += states
    for i, failing in bad:
        op = pend[i][0]
        props = {"C17"}
        if op.get("fault") == "dup-uuid" and (set(failing) & {"Cache", "RefKinds"}):
            props.add("C09")    # "in a loaded IR each UUID denotes one object"
        stages._file(ctx, {"kind": "incoherent-ir", "props": sorted(props), "op": op, "expected": "rejected, or a coherent IR",
                           "observed": {"failing": failing, "record": pend[i][1]}, "history": [],
                           "signature": "incoherent:%s/%s" % (op.get("fault", op.get("name")), ",".join(sorted(failing)))})
    ctx.stages.append({"stage": "coherence-judge", "what": what, "irs_accepted_from_faulty_input": len(pend),
                       "rejected_by_tlc": len(bad)})
    ctx.log("coherence %s: %d accepted IRs judged by TLC, %d incoherent" % (what, len(pend), len(bad)))


def reload_stages(ctx, deq=False, sim=True):
    extra = {}
    sh = set()
    if deq:
        extra = {"EmitKeys": configs.proto_base(universe.SCHEMA)["EmitKeys"] | {"deq", "deqn", "shadowed"}}
        sh = {"shadow"}
    for name, fams in SWEEPS:
        sweep_stage(ctx, name, set(fams) | sh, ("reload", "reload"), **extra)
    tags_all = set(range(max(len(universe.SCHEMA.enums["SymAttribute"]), 8) + 6))
    sweep_stage(ctx, "alltags", {"tags"} | sh, ("reload", "reload"), Tags=tags_all, **extra)
    if not sim:
        return
    bases = (0, core.BASES["2^64-40"]) if ctx.quick() else tuple(core.BASES.values())
    c = consts_for(SIM_FAMS | {"reload"} | sh, ReloadWeight=8, **extra)
    stages.stage_sim(ctx, "ProtoSim", num=120 if ctx.quick() else 600, depth=30 if ctx.quick() else 40,
                     consts=c, bases=bases)


def other_backend(ctx):
    """the same check under the other protobuf runtime the installed package offers"""
    here = universe.__name__  # noqa
    cur = ctx.notes.get("protobuf_backend")
    other = "python" if cur != "python" else "upb"
    if os.environ.get("VERIF_CHILD") or os.environ.get("VERIF_WARM"):
        return
    out = os.path.join(workdir("gtirbverif-child-"), "child.json")
    env = dict(os.environ, PROTOCOL_BUFFERS_PYTHON_IMPLEMENTATION=other, VERIF_CHILD=out)
    p = subprocess.run([sys.executable, "-m", "harness.cli", ctx.prop, "--tier", ctx.tier, "--seed", str(ctx.seed)],
                       cwd=core.VERIF, env=env, capture_output=True, text=True, timeout=3000)
    if not os.path.exists(out):
        ctx.stages.append({"stage": "other-backend", "backend": other, "skipped": (p.stdout + p.stderr)[-300:]})
        ctx.log("backend %s: not run (%s)" % (other, (p.stdout + p.stderr)[-120:].replace("\n", " ")))
        return
    ch = json.load(open(out))
    if ch["backend"] == cur:
        ctx.stages.append({"stage": "other-backend", "backend": other, "skipped": "runtime not available"})
        return
    ctx.states += ch["states"]
    ctx.transitions += ch["transitions"]
    ctx.traces += ch["traces"]
    ctx.evaluations += ch["evaluations"]
    for v in ch["violations"]:
        v["backend"] = ch["backend"]
        ctx.violations.append(v)
    ctx.stages.append({"stage": "other-backend", "backend": ch["backend"], "stages": ch["stages"]})
    ctx.log("backend %s: %d executions, %d violations" % (ch["backend"], ch["traces"], len(ch["violations"])))


RULE = ("cases are transitions/behaviours of Gtirb.tla over the file-format universe (2 modules, 2 sections, 2 intervals, "
        "code/data/proxy blocks, 3 symbols of every payload class, both expression kinds, every edge-label value, every "
        "enum constant of /repo/proto): every single-field perturbation of the initial IR followed by save+load "
        "(exhaustive), and random behaviours of the composed model with frequent save+load; each save is parsed and "
        "compared field by field with the message the spec prescribes (MsgOf), each load is compared with the spec "
        "state, and an independently built message (shuffled, with duplicates, arbitrary vertex list) is loaded too")


def plan_c01(ctx):
    reload_stages(ctx)
    if not os.environ.get("VERIF_WARM") and not os.environ.get("VERIF_CHILD"):
        from . import p_auxlife, p_aux
        p_auxlife.values_stage(ctx)
        p_aux.run(ctx)      # its "python-reloads-file" leg: every (type, value) input as a table, saved, loaded, read back
    other_backend(ctx)
    ctx.exhaustive = False
    ctx.assumptions += ["self-contained IRs only (Reload is enabled by SelfContained /\\ Closed)",
                        "attribute values are boundary-class representatives (0, 1, 2^63, 2^64-1, min/max int64, "
                        "empty and non-ASCII strings)"]
    return "model_checking", RULE


def fault_stages(ctx):
    c = consts_for({"fault", "sym", "entry", "parent"}, SweepOps={"loadfault"}, SweepMode=True)
    if os.environ.get("VERIF_CHILD"):
        # the run under the other protobuf runtime: the faults of the initial IR only
        r = run_tlc_config("Proto_fault0", emit=True, consts=c, action_constraints=["Sweep"], constraints=["Depth2"])
        stages.stage_graph(ctx, "Proto_fault0", consts=c, result=r)
        drain_pending(ctx, "structural faults")
        return
    r = run_tlc_config("Proto_fault", emit=True, consts=c, action_constraints=["Sweep"])
    G = stages.stage_graph(ctx, "Proto_fault", consts=c, result=r)
    if G is not None:
        ctx.distinct += sum(1 for o in G.out for e in o if e[0].get("name") == "loadfault")   # distinct (state, fault)
    drain_pending(ctx, "structural faults")


def plan_c09(ctx):
    reload_stages(ctx)
    reader_stages(ctx)
    fault_stages(ctx)
    aux_refs(ctx)
    other_backend(ctx)
    ctx.exhaustive = False
    return "model_checking", RULE + ("; references: the projection maps objects to node ids by identity, so a copy "
                                     "where the spec names the attached node is a violation; every dangling and "
                                     "ill-typed reference of every kind is injected (LoadFault) and must raise "
                                     "DeserializationError; AuxData UUID/Offset entries at IR and module level")


def aux_refs(ctx):
    """AuxData UUID / Offset entries naming attached nodes decode to those objects, others to UUIDs"""
    if os.environ.get("VERIF_WARM"):
        return
    g = ctx.gtirb
    env = universe.Env(g, consts_for(set()))
    import uuid as U
    ir = env.obj["i1"]
    names = [n for n in sorted(env.kind) if env.kind[n] != "expr"]
    foreign = [U.UUID(int=0xF00D), env.hidden_sym.uuid]
    env.obj["d1"].byte_interval = None      # a detached node is not an attached node
    uu = [env.uuid(n) for n in names] + foreign
    for holder in (ir, env.obj["m1"], env.obj["m2"]):
        holder.aux_data["u"] = g.AuxData(list(uu), "sequence<UUID>")
        holder.aux_data["m"] = g.AuxData({u: g.Offset(u, 7) for u in uu}, "mapping<UUID,Offset>")
        holder.aux_data["s"] = g.AuxData({(u, 1) for u in uu}, "set<tuple<UUID,uint8_t>>")
        holder.aux_data["w"] = g.AuxData([g.Variant(0, u) if k % 2 else g.Variant(1, g.Offset(u, k)) for k, u in enumerate(uu)],
                                         "sequence<variant<UUID,Offset,string>>")
    buf = io.BytesIO()
    ir.save_protobuf_file(buf)
    first = g.IR.load_protobuf_file(io.BytesIO(buf.getvalue()))
    for holder in [first] + list(first.modules):     # an earlier load of the same file, fully read
        for k in ("u", "m", "s", "w"):
            holder.aux_data[k].data
    ir2 = g.IR.load_protobuf_file(io.BytesIO(buf.getvalue()))
    n = 0
    for holder in [ir2] + list(ir2.modules):
        seq = holder.aux_data["u"].data
        mp = holder.aux_data["m"].data
        st = holder.aux_data["s"].data
        vs = [x.val if x.index == 0 else x.val.element_id for x in holder.aux_data["w"].data]
        items = list(zip(uu, seq)) + list(zip(uu, vs)) + [(k.uuid if isinstance(k, g.Node) else k, k) for k in mp] + \
            [(v.element_id.uuid if isinstance(v.element_id, g.Node) else v.element_id, v.element_id) for v in mp.values()] + \
            [(t[0].uuid if isinstance(t[0], g.Node) else t[0], t[0]) for t in st]
        for u, got in items:
            n += 1
            att = ir2.get_by_uuid(u)
            ok = (got is att) if att is not None else (isinstance(got, U.UUID) and got == u)
            if not ok:
                ctx.violations.append({"kind": "aux-reference", "props": ["C09"], "op": {"name": "aux_data", "uuid": str(u)},
                                       "expected": "the attached object itself" if att is not None else "a plain UUID",
                                       "observed": repr(got)[:200], "history": [], "signature": "auxref:%s" % type(got).__name__})
    ctx.evaluations += n
    ctx.stages.append({"stage": "auxdata-references", "entries_checked": n,
                       "tables": ["sequence<UUID>", "mapping<UUID,Offset>", "set<tuple<UUID,uint8_t>>",
                                  "sequence<variant<UUID,Offset,string>>"],
                       "levels": ["ir", "module"]})
    ctx.log("aux references: %d entries at IR and module level" % n)


def reader_stages(ctx):
    """the reader on messages nobody here wrote: every single edit of references / containment, then ReadMsg"""
    sweep_stage(ctx, "read", {"sym", "entry", "parent", "list"}, ("readmsg", "readmsg"))


def writer_stages(ctx):
    """the writer alone, twice from the same objects: (save when the universe is built,) any single edit, save again"""
    sweep_stage(ctx, "write", DEQ_FAMS - {"reload", "shadow"}, ("writemsg", "writemsg"))


def plan_c02(ctx):
    reload_stages(ctx)
    reader_stages(ctx)
    writer_stages(ctx)
    other_backend(ctx)
    ctx.exhaustive = False
    ctx.notes["enum_constants_exercised"] = {k: len(v) for k, v in universe.SCHEMA.enums.items()}
    return "model_checking", RULE


def byte_faults(ctx):
    """below the spec's abstraction: corrupt valid files, load under a watchdog, TLC judges every outcome"""
    if os.environ.get("VERIF_WARM"):
        return
    from gtirb.version import PROTOBUF_VERSION
    g = ctx.gtirb
    rng = random.Random(ctx.seed + 3)
    files = []
    env = universe.Env(g, consts_for(set()))
    files.append(("initial", env.save_bytes("i1")))
    env2 = universe.Env(g, consts_for(set()))
    for y in ("y1", "y2", "y3"):
        env2.obj[y].module = None
    for v in ("v1", "v2"):
        env2.obj[v].symbolic_expressions.clear()   # their symbols were just detached: keep the file self-contained
    env2.obj["v1"].address = 0
    env2.obj["v1"].size = 4
    env2.obj["v1"].contents = bytearray(b"\x01\x02")
    files.append(("small", env2.save_bytes("i1")))
    hello = os.path.join(os.environ.get("VERIF_REPO", "/repo"), "python", "tests", "hello.gtirb")
    budget = 4000 if ctx.quick() else 60000
    if os.path.exists(hello) and not ctx.quick():
        files.append(("hello.gtirb", open(hello, "rb").read()))
    recs, labels = [], []
    for fname, data in files:
        out = faults.load_guarded(g, data)
        if len(data) >= 8 and data[:5] == b"GTIRB" and data[7] != PROTOBUF_VERSION:
            # a sample file written for another protobuf version: the property demands ValueError (its corruptions below
            # are judged by the Header clause like any other byte string)
            if out[:2] != ("exc", "ValueError"):
                ctx.violations.append({"kind": "foreign-version-accepted", "props": ["C17"], "op": {"name": fname},
                                       "expected": "ValueError (version byte %d, this API's is %d)" % (data[7], PROTOBUF_VERSION),
                                       "observed": out[1:] if out[0] != "ir" else "an IR", "history": [],
                                       "signature": "foreign-version-accepted"})
        elif out[0] != "ir":
            ctx.violations.append({"kind": "valid-file-rejected", "props": ["C17"], "op": {"name": fname},
                                   "expected": "accepted", "observed": out[1:], "history": [], "signature": "valid-rejected"})
            continue
        seen = set()
        for label, bad in faults.corruptions(data, rng, budget if fname != "hello.gtirb" else 3000):
            if bad != data and bad not in seen:
                seen.add(bad)
                ctx.distinct += 1          # a distinct byte string that differs from the valid file
            o = faults.load_guarded(g, bad)
            recs.append(faults.outcome_record(g, bad, PROTOBUF_VERSION, o))
            labels.append((fname, label, o[0] if o[0] != "exc" else "exc:" + o[1]))
    bad, states = faults.judge_coherence(recs)
    ctx.states += states
    ctx.transitions += len(recs)
    ctx.evaluations += len(recs)
    ctx.traces += len(recs)
    hist = {}
    for _, _, oc in labels:
        hist[oc] = hist.get(oc, 0) + 1
    for i, failing in bad:
        fname, label, oc = labels[i]
        ctx.violations.append({"kind": "byte-fault", "props": ["C17"], "op": {"name": "load", "file": fname, "corruption": label},
                               "expected": "ValueError for a bad header; otherwise an exception or a coherent IR; never a hang",
                               "observed": {"outcome": oc, "failing": failing}, "history": [],
                               "signature": "bytefault:%s/%s" % (",".join(sorted(failing)), label.split("@")[0].split("=")[0])})
    ctx.stages.append({"stage": "byte-level-faults", "files": [f for f, _ in files], "corruptions": len(recs),
                       "outcomes": hist, "rejected_by_tlc": len(bad)})
    ctx.samples.append({"corruption": labels[len(labels) // 2][:2], "outcome": labels[len(labels) // 2][2]})
    ctx.log("byte faults: %d corrupted files, outcomes %s, %d rejected by TLC" % (len(recs), hist, len(bad)))


def plan_c17(ctx):
    fault_stages(ctx)
    byte_faults(ctx)
    reload_stages(ctx)     # every file produced by save from a self-contained IR is accepted
    other_backend(ctx)
    ctx.exhaustive = False
    ctx.assumptions.append("'all byte strings' is sampled: every truncation, single-bit flip and byte substitution of "
                           "valid files within a budget, every header variation, every structural fault of Gtirb.tla")
    return "fault_enumeration", ("cases are (a) the LoadFault transitions TLC enumerates from the initial and once-perturbed "
                                 "IR: one dangling / ill-typed reference per reference site, duplicated UUIDs, unknown enum "
                                 "number, wrong-length UUID, header and version variations; (b) byte-level corruptions of "
                                 "saved files; each outcome (exception class or the returned IR walked through the public "
                                 "API) is judged by TLC (CoherentJudge.tla); distinct_nontrivial counts distinct (IR state, structural "
                                 "fault) pairs plus distinct corrupted byte strings that differ from the valid file")


DEQ_OPS = {"scal", "tag.add", "tag.del", "attr.addr", "attr.isize", "attr.off", "attr.bsize", "attr.bytes",
           "attr.initsize", "sym.name", "sym.payload", "mod.entry", "symx.set", "symx.del", "symx.clear", "setparent",
           "list.remove", "list.reverse", "cfg.add", "cfg.discard", "cfg.clear"}
DEQ_FAMS = {"scal", "tags", "geom", "bytes", "sym", "entry", "symx", "parent", "list", "cfg.small", "reload", "shadow"}


def plan_c18(ctx):
    reload_stages(ctx, deq=True, sim=False)
    # after save+load, every single-field perturbation of the live IR against the frozen twin
    extra = {"EmitKeys": configs.proto_base(universe.SCHEMA)["EmitKeys"] | {"deq", "deqn", "shadowed"}}
    sd = dict(configs.proto_base(universe.SCHEMA)["ScalDom"], kindflip={"F", "T"})   # (a block replaced by one of the other class)
    c = consts_for(DEQ_FAMS, SweepOps=DEQ_OPS, SweepMode=True, ScalDom=sd, **extra)
    r = run_tlc_config("Proto_deq", emit=True, consts=c, action_constraints=["SweepAfterReload"])
    stages.stage_graph(ctx, "Proto_deq", consts=c, result=r)
    # ... and a second step (which may revert the first): equal again iff the content is the same again
    c3 = consts_for({"scal", "tags", "parent", "sym", "reload", "shadow", "cfg.small"},
                    SweepOps={"scal", "tag.add", "tag.del", "setparent", "sym.payload", "cfg.add", "cfg.discard"}, SweepMode=True,
                    ScalDom=dict(configs.proto_base(universe.SCHEMA)["ScalDom"],
                                 **{k: {"E0", "E1"} for k in ("isa", "file_format", "byte_order", "decode_mode")},
                                 name={"s0", "s1"}, binary_path={"s0"}, preferred_addr={"0", "MAX64"},
                                 rebase_delta={"0", "MIN64"}, xoffset={"0", "-1"}, xscale={"1", "-1"}),
                    Tags={0, 1}, EmitKeys=extra["EmitKeys"] - {"deqn"})   # (node-level deep_eq: in the one-step sweep only)
    if not os.environ.get("VERIF_CHILD"):
        r3 = run_tlc_config("Proto_deq2", emit=True, consts=c3, action_constraints=["SweepAfterReload2"])
        stages.stage_graph(ctx, "Proto_deq2", consts=c3, result=r3)
    other_backend(ctx)
    ctx.assumptions.append("the expectation is asserted while the live IR is self-contained (deep_eq follows references "
                           "out of the IR otherwise)")
    return "model_checking", ("after a save+load the pre-load IR is kept as a frozen twin (same UUIDs); the spec stores its "
                              "content (Content(i)) and predicts deep_eq = (Content(live) = Content(twin)) after every "
                              "further operation; TLC enumerates every single operation after the load (each compared "
                              "field of each node kind, each child/edge/expression/flag/attribute/aux-key add or remove) "
                              "and every pair of operations of a smaller vocabulary (so that reverting restores equality); "
                              "both directions of deep_eq are executed")
