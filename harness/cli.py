"""./check <property> [--tier quick|thorough] [--replay path]"""
import argparse
import json
import os
import sys

from . import build, core


def main():
    ap = argparse.ArgumentParser()
    ap.add_argument("prop")
    ap.add_argument("--tier", default=os.environ.get("VERIF_TIER", "quick"), choices=["quick", "thorough"])
    ap.add_argument("--replay")
    ap.add_argument("--seed", type=int, default=int(os.environ.get("VERIF_SEED", "0") or 0))
    a = ap.parse_args()
    from . import props

    if a.prop not in props.PLANS:
        print("MACHINERY-FAILURE unknown property %s" % a.prop)
        return 2
    gtirb, root, fds = build.build_and_activate()
    if a.replay:
        from . import protomsg, universe
        universe.SCHEMA = protomsg.Schema(fds)
        return props.replay_file(gtirb, a.prop, a.replay)
    ctx = core.Ctx(a.prop, a.tier, a.seed)
    ctx.gtirb = gtirb
    ctx.fds = fds
    ctx.pkg_root = root
    from . import protomsg, universe
    universe.SCHEMA = protomsg.Schema(fds)
    ctx.notes["gtirb_built_from"] = build.REPO
    ctx.notes["protobuf_backend"] = build.backend()
    level, rule = props.PLANS[a.prop](ctx)
    return core.finish(ctx, level=level, rule=rule)


if __name__ == "__main__":
    core.main_wrapper(main)
