"""C14: AuxData tables are never silently lost, staled or rewritten (spec/AuxLife.tla)."""
import io
import json

from . import replay, tlc
from .build import MachineryFailure

KINDS = {"known", "top", "reached", "unreached"}


def u64(n):
    return n.to_bytes(8, "little")


def enc_known(val, ty, shape=0):
    """canonical bytes of the 'known' representatives:
    shape 0: sequence<tuple<bool,uintN_t>>   value [(bool, int), ...]
    shape 1: tuple<sequence<bool>,uintN_t>   value ([bool, ...], int)  -- an immutable value holding a mutable one"""
    w = 1 if ty == "T0" else 2
    if shape == 2:
        return u64(len(val)) + b"".join(int(n).to_bytes(w, "little") for n in val)
    if shape == 0:
        return u64(len(val)) + b"".join(bytes([1 if b else 0]) + n.to_bytes(w, "little") for b, n in val)
    bs, n = val
    return u64(len(bs)) + bytes(1 if b else 0 for b in bs) + n.to_bytes(w, "little")


class Rep:
    """concrete representative of one (kind) class of tables"""

    def __init__(self, kind, variant=0):
        self.kind = kind
        self.vals = {"v0": [(True, 5)], "vm": [(True, 5), (False, 7)], "vn": [(False, 1)]}
        self.shape = 0
        if kind == "known" and variant % 3 == 2:
            # shape 2: sequence<uintN_t>; the value assigned is a bytearray (a mutable Sequence of small integers like any other)
            self.shape = 2
            self.vals = {"v0": [5], "vm": [5, 7], "vn": bytearray(b"\x01\x09")}
            self.types = {"T0": "sequence<uint8_t>", "T1": "sequence<uint16_t>"}
            self.raw = {True: enc_known(self.vals["v0"], "T0", 2), False: enc_known(self.vals["v0"], "T0", 2)}
        elif kind == "known" and variant % 3 == 1:
            self.shape = 1
            self.vals = {"v0": ([True], 5), "vm": ([True, False], 5), "vn": ([False], 5)}
            self.types = {"T0": "tuple<sequence<bool>,uint8_t>", "T1": "tuple<sequence<bool>,uint16_t>"}
            self.raw = {True: enc_known(self.vals["v0"], "T0", 1), False: u64(1) + b"\x02\x05"}
        elif kind == "known":
            self.types = {"T0": "sequence<tuple<bool,uint8_t>>", "T1": "sequence<tuple<bool,uint16_t>>"}
            self.raw = {True: enc_known(self.vals["v0"], "T0"), False: u64(1) + b"\x02\x05"}  # bool byte 02: decodable, not canonical
        elif kind == "top":
            # (the third: no codec, but only punctuation away from a name that has one)
            self.types = {"T0": ["foo", "my_custom<thing>", "uint8_t*"][variant % 3], "T1": "bar"}
            self.raw = {True: b"\x01\x02\x03\xff", False: b""}
        elif kind == "reached":
            self.types = {"T0": ["mapping<string,foo>", "sequence<tuple<uint8_t,foo<bar>>>", "mapping<string, bool&>"][variant % 3],
                          "T1": "bar"}
            self.raw = {True: u64(1) + u64(1) + b"k" + b"\xAA\xBB", False: u64(1) + b"\x07\x00\x01"}
            if variant % 3 == 1:
                self.raw = {True: u64(1) + b"\x07\xAA", False: u64(2) + b"\x07\x01\x08"}
        else:
            # the unknown name last, first, in the middle, and below a known container
            names = ["tuple<sequence<bool>,sequence<foo>>", "variant<sequence<bool>,foo>", "mapping<string,sequence<foo>>",
                     "tuple<sequence<foo>,sequence<bool>>", "variant<foo,sequence<bool>>",
                     "tuple<uint8_t,sequence<foo>,sequence<bool>>"]
            k = variant % len(names)
            self.types = {"T0": names[k], "T1": "bar"}
            if k == 0:
                self.raw = {True: u64(1) + b"\x01" + u64(0), False: u64(1) + b"\x02" + u64(0)}
            elif k == 1:
                self.raw = {True: u64(0) + u64(1) + b"\x01", False: u64(0) + u64(1) + b"\x02"}
            elif k == 2:
                self.raw = {True: u64(0), False: u64(1) + u64(1) + b"k" + u64(0)}
            elif k == 3:
                self.raw = {True: u64(0) + u64(1) + b"\x01", False: u64(0) + u64(1) + b"\x02"}
            elif k == 4:
                self.raw = {True: u64(1) + u64(1) + b"\x01", False: u64(1) + u64(1) + b"\x02"}
            else:
                self.raw = {True: b"\x07" + u64(0) + u64(1) + b"\x01", False: b"\x07" + u64(0) + u64(1) + b"\x02"}

    def bytes_of(self, b):
        """concrete bytes of a spec bytes record"""
        if b["val"] == "any":
            return None
        if not b["canon"] or self.kind != "known":
            if b["val"] != "v0" or b["ty"] != "T0":
                raise MachineryFailure("no concrete bytes for %r in kind %s" % (b, self.kind))
            return self.raw[b["canon"]]
        return enc_known(self.vals[b["val"]], b["ty"], self.shape)


class TableEnv:
    """one AuxData table 't' at IR or module level, driven through load / save of real files"""

    def __init__(self, gtirb, level, variant, mode="bytes"):
        # mode "bytes": every save must write the (type name, bytes) the specification requires (C14)
        # mode "values": after save + load the table has the required type name and decodes to the required value (C01)
        self.g, self.level, self.variant, self.mode = gtirb, level, variant, mode
        self.ir = None
        self.rep = None

    def _holder(self):
        return self.ir if self.level == "ir" else next(iter(self.ir.modules))

    def _load(self, type_name, data):
        from gtirb.proto import IR_pb2, Module_pb2
        import uuid
        from gtirb.version import PROTOBUF_VERSION
        msg = IR_pb2.IR()
        msg.uuid = uuid.UUID(int=1).bytes
        msg.version = PROTOBUF_VERSION
        m = msg.modules.add()
        m.uuid = uuid.UUID(int=2).bytes
        m.name = "m"
        holder = msg if self.level == "ir" else m
        holder.aux_data["t"].type_name = type_name
        holder.aux_data["t"].data = data
        holder.aux_data["other"].type_name = "uint8_t"
        holder.aux_data["other"].data = b"\x09"
        blob = b"GTIRB\x00\x00" + bytes([PROTOBUF_VERSION]) + msg.SerializeToString()
        self.ir = self.g.IR.load_protobuf_file(io.BytesIO(blob))

    def _save(self):
        from gtirb.proto import IR_pb2
        buf = io.BytesIO()
        self.ir.save_protobuf_file(buf)
        raw = buf.getvalue()
        msg = IR_pb2.IR()
        msg.ParseFromString(raw[8:])
        holder = msg if self.level == "ir" else msg.modules[0]
        if "t" not in holder.aux_data or "other" not in holder.aux_data:
            return raw, None
        return raw, (holder.aux_data["t"].type_name, bytes(holder.aux_data["t"].data))

    def project(self, keys):
        return {}

    def step(self, op):
        n = op["name"]
        try:
            if n == "load":
                self.rep = Rep(op["kind"], self.variant)
                self._load(self.rep.types["T0"], self.rep.raw[op["canon"]])
                return "none"
            t = self._holder().aux_data["t"]
            if n == "read":
                t.data
                return "none"
            if n == "mutate":
                d = t.data
                if self.rep.shape == 1:
                    d[0][:] = list(self.rep.vals["vm"][0])   # the list inside the (immutable) tuple, in place
                else:
                    d[:] = list(self.rep.vals["vm"])          # in place: the same list object holds the new value
                return "none"
            if n == "assign":
                vn = self.rep.vals["vn"]
                t.data = (list(vn[0]), vn[1]) if self.rep.shape == 1 else bytearray(vn) if self.rep.shape == 2 else list(vn)
                return "none"
            if n == "move":
                if self.level == "module":
                    m = self._holder()
                    ir2 = self.g.IR()
                    m.ir = ir2           # the module (with its tables) now belongs to another IR
                    self.ir = ir2
                return "none"
            if n == "settype":
                t.type_name = self.rep.types[op["t"]]
                return "none"
            if n in ("save", "reload"):
                raw, got = self._save()
                exp_b = self.rep.bytes_of(op["out"]["bytes"])
                exp_t = self.rep.types[op["out"]["type"]]
                if got is None:
                    return {"exc": "TableLost"}
                if self.mode == "values":
                    if n == "reload" and op["out"]["bytes"]["val"] != "any":
                        probe = self.g.IR.load_protobuf_file(io.BytesIO(raw))
                        t2 = (probe if self.level == "ir" else next(iter(probe.modules))).aux_data["t"]
                        want = self.rep.vals[op["out"]["bytes"]["val"]]
                        same = (list(t2.data) == list(want)) if self.rep.shape == 2 else (t2.data == want)
                        if t2.type_name != exp_t or not same:
                            return {"exc": "ReloadedTableDiffers",
                                    "msg": {"expected": [exp_t, repr(want)], "observed": [t2.type_name, repr(t2.data)[:200]]}}
                elif got[0] != exp_t or (exp_b is not None and got[1] != exp_b):
                    return {"exc": "WrongTable", "msg": {"expected": [exp_t, None if exp_b is None else exp_b.hex()],
                                                         "observed": [got[0], got[1].hex()]}}
                if n == "reload":
                    self.ir = self.g.IR.load_protobuf_file(io.BytesIO(raw))
                return "none"
        except Exception as e:
            if n in ("save", "reload") and op["out"]["bytes"]["val"] == "any":
                return "none"   # unconstrained by the property (e.g. EncodeError for an unknown codec)
            return {"exc": type(e).__name__, "msg": str(e)[:200]}
        raise KeyError(n)


def _emit(ctx, kinds, max_ops):
    """TLC prints every transition of the bounded AuxLife model; a synthetic root loads each initial table"""
    cfg = tlc.render_cfg({"Kinds": kinds, "UpFront": True, "MaxGen": 3, "MaxOps": max_ops},
                         invariants=["SaveMeetsReq"], action_constraints=["Emit"], view="view")
    r = tlc.run("AuxLife", cfg, workers=1)
    if r.errors or r.violation:
        raise MachineryFailure("AuxLife emit: %s" % (r.errors or [r.violation])[0][:1500])
    inits = {}
    recs = []
    for x in r.records:
        if x["lvl"] == 1:
            k = json.dumps(x["pre"], sort_keys=True)
            if k not in inits:
                inits[k] = True
                recs.append({"pre": {"root": True}, "op": {"name": "load", "kind": x["pre"]["kind"],
                                                           "canon": x["pre"]["raw"]["canon"], "res": "none"},
                             "post": x["pre"], "lvl": 0})
    return recs + r.records


def values_stage(ctx):
    """C01 for tables with a history: whatever was done to a loaded table of a supported type (read, changed in
    place, replaced, given another type name, saved before), save + load gives back its current type name and value"""
    recs = _emit(ctx, {"known"}, 5 if ctx.quick() else 6)
    steps = div = 0
    for level in ("ir", "module"):
        for variant in range(3):
            G = replay.Graph(recs, base_keys=None)
            w = replay.Walker(G, lambda: TableEnv(ctx.gtirb, level, variant, mode="values"), [], seed=ctx.seed,
                              observable=set(), max_run=50).run()
            ctx.traces += w.runs
            ctx.evaluations += w.steps
            steps += w.steps
            for v in w.violations:
                j = v.to_json()
                j["props"] = ["C01"]
                j["level"], j["variant"] = level, variant
                j["signature"] = "auxlife-values:%s" % j["op"]["name"]
                ctx.violations.append(j)
                div += 1
    ctx.stages.append({"stage": "graph-replay", "spec": "AuxLife.tla", "mode": "values after save+load",
                       "kinds": ["known"], "steps_executed": steps, "divergences": div})
    ctx.log("AuxLife values replay: %d steps, %d divergences" % (steps, div))


def run(ctx):
    total = 0
    for up, what in ((True, "required design"), (False, "decoder notices unknown names only when reached")):
        cfg = tlc.render_cfg({"Kinds": KINDS, "UpFront": up, "MaxGen": 3, "MaxOps": 5 if ctx.quick() else 7},
                             invariants=["SaveMeetsReq", "NeverStale"])
        r = tlc.run("AuxLife", cfg, workers=8, want_records=False, coverage=True)
        if r.errors:
            raise MachineryFailure("AuxLife: %s" % r.errors[0][:1500])
        ctx.states += r.distinct
        ctx.transitions += r.generated
        ctx.stages.append({"stage": "model-check", "spec": "AuxLife.tla", "UpFront": up, "design": what,
                           "distinct_states": r.distinct, "transitions": r.generated,
                           "invariants_hold": r.violation is None})
        if up and r.violation:
            ctx.violations.append({"kind": "invariant", "props": ["C14"], "op": {"name": "SaveMeetsReq"},
                                   "expected": "holds", "observed": r.violation[:2000], "history": [],
                                   "signature": "invariant:AuxLife"})
        if not up and r.violation is None:
            raise MachineryFailure("AuxLife: the known counterexample of the reach-only design was not found (vacuity)")
        ctx.log("mc AuxLife UpFront=%s: %d states, invariants %s" % (up, r.distinct, "hold" if r.violation is None else "violated (expected for this design)"))
    recs = _emit(ctx, KINDS, 5 if ctx.quick() else 6)
    for level in ("ir", "module"):
        for variant in range(6):
            G = replay.Graph(recs, base_keys=None)
            w = replay.Walker(G, lambda: TableEnv(ctx.gtirb, level, variant), [], seed=ctx.seed, observable=set(),
                              max_run=50).run()
            ctx.traces += w.runs
            ctx.evaluations += w.steps
            total += w.steps
            for v in w.violations:
                j = v.to_json()
                j["props"] = ["C14"]
                j["level"], j["variant"] = level, variant
                rep_kind = next((o.get("kind") for o in j["history"] if o.get("name") == "load"), "?")
                j["signature"] = "auxlife:%s/%s" % (rep_kind, j["op"]["name"])
                ctx.violations.append(j)
            ctx.stages.append({"stage": "graph-replay", "spec": "AuxLife.tla", "aux_data_of": level,
                               "representative_variant": variant, "transitions_printed": G.n_edges,
                               "steps_executed": w.steps, "walks": w.runs, "edges_not_executed": w.remaining,
                               "divergences": len(w.violations), "ops": dict(w.ops_count)})
            ctx.log("AuxLife replay level=%s variant=%d: %d edges, %d steps, %d divergences" % (
                level, variant, G.n_edges, w.steps, len(w.violations)))
            if w.samples and len(ctx.samples) < 4:
                ctx.samples.append({"aux_data_of": level, "walk": w.samples[0]})
    ctx.assumptions += ["concrete representatives per class: known = sequence<tuple<bool,uintN_t>> (non-canonical via "
                        "bool byte 0x02), top = foo / my_custom<thing>, reached = mapping<string,foo> / "
                        "sequence<tuple<uint8_t,foo<bar>>>, unreached = tuple<sequence<bool>,sequence<foo>> / "
                        "variant<sequence<bool>,foo> / mapping<string,sequence<foo>> with the unknown part empty or unselected",
                        "tables of unknown type that are assigned new data or a new type name are unconstrained"]
    return "model_checking", ("every history (<= 5-7 operations, 3 save/load generations) of the AuxLife model for every "
                              "table class, printed by TLC with the required (type name, bytes) of every save and "
                              "replayed through real load_protobuf_file/save_protobuf_file at IR and module level")
