"""Run TLC on the specifications under /verif/spec and parse what it prints."""
import json
import os
import re
import shutil
import subprocess
import time

from .build import MachineryFailure, workdir

SPEC_DIR = os.path.join(os.path.dirname(os.path.dirname(os.path.abspath(__file__))), "spec")
JAR = "/opt/veriftools/tla/tla2tools.jar"
DEPS = "/opt/veriftools/tla/CommunityModules-deps.jar"


class TlcResult:
    def __init__(self):
        self.returncode = None
        self.generated = 0  # "states generated" = transitions examined (+ initial states)
        self.distinct = 0
        self.depth = 0
        self.violation = None  # text of the first error block, if any
        self.errors = []
        self.records = []  # parsed JSON records printed by the spec
        self.coverage = {}  # action name -> (distinct, total)
        self.wall_s = 0.0
        self.stdout_path = None
        self.cmd = ""

    @property
    def ok(self):
        return self.returncode == 0 and self.violation is None and not self.errors


def cfg_value(v):
    """Render a Python value as a TLC cfg constant literal."""
    if isinstance(v, bool):
        return "TRUE" if v else "FALSE"
    if isinstance(v, int):
        if v < 0:
            raise ValueError("cfg cannot hold negative numbers: %r" % v)
        return str(v)
    if isinstance(v, str):
        return '"%s"' % v
    if isinstance(v, (set, frozenset, list, tuple)):
        items = sorted(v, key=lambda x: (str(type(x)), x)) if isinstance(v, (set, frozenset)) else list(v)
        return "{" + ", ".join(cfg_value(x) for x in items) + "}"
    raise ValueError("unsupported cfg value %r" % (v,))


def render_cfg(constants, spec="Spec", init=None, next_=None, invariants=(), properties=(),
               constraints=(), action_constraints=(), view=None, postcondition=None,
               deadlock=False, overrides=None):
    lines = []
    if init:
        lines += ["INIT %s" % init, "NEXT %s" % next_]
    else:
        lines.append("SPECIFICATION %s" % spec)
    if constants or overrides:
        lines.append("CONSTANTS")
        for k, v in constants.items():
            lines.append("  %s = %s" % (k, cfg_value(v)))
        for k, v in (overrides or {}).items():
            lines.append("  %s <- %s" % (k, v))
    for i in invariants:
        lines.append("INVARIANT %s" % i)
    for p in properties:
        lines.append("PROPERTY %s" % p)
    for c in constraints:
        lines.append("CONSTRAINT %s" % c)
    for c in action_constraints:
        lines.append("ACTION_CONSTRAINT %s" % c)
    if view:
        lines.append("VIEW %s" % view)
    if postcondition:
        lines.append("POSTCONDITION %s" % postcondition)
    lines.append("CHECK_DEADLOCK %s" % ("TRUE" if deadlock else "FALSE"))
    return "\n".join(lines) + "\n"


_RE_GEN = re.compile(r"^(\d+) states generated, (\d+) distinct states found")
_RE_DEPTH = re.compile(r"^The depth of the complete state graph search is (\d+)")
_RE_COV = re.compile(r"^<(\w+) line (\d+), col (\d+) to line (\d+), col (\d+) of module (\w+)>: (\d+):(\d+)")
_RE_SIMSTATES = re.compile(r"^The number of states generated: (\d+)")


def run(module, cfg_text, *, workers=16, simulate=None, depth=None, seed=None, coverage=False,
        timeout=3600, extra_files=None, env_extra=None, want_records=True, heap="4g",
        dfs=False, keep_stdout=False, record_prefix='"{', extra_args=()):
    """Run TLC on spec/<module>.tla with the given cfg text.

    simulate: None for BFS model checking, or an int number of behaviours.
    Records are lines TLC prints via PrintT(ToJson(..)); they are parsed into
    result.records (JSON-in-a-JSON-string).
    """
    wd = workdir("gtirbverif-tlc-")
    for f in os.listdir(SPEC_DIR):
        if f.endswith(".tla"):
            shutil.copy(os.path.join(SPEC_DIR, f), os.path.join(wd, f))
    for name, text in (extra_files or {}).items():
        with open(os.path.join(wd, name), "w") as fh:
            fh.write(text)
    cfg_path = os.path.join(wd, module + ".cfg")
    with open(cfg_path, "w") as fh:
        fh.write(cfg_text)
    cmd = ["java", "-XX:+UseParallelGC", "-XX:ParallelGCThreads=%d" % max(2, min(8, workers)), "-Xss64m", "-Xmx" + heap]
    if dfs:
        cmd.append("-Dtlc2.tool.queue.IStateQueue=StateDeque")
    cmd += ["-cp", JAR + ":" + DEPS, "tlc2.TLC", "-workers", str(workers),
            "-metadir", os.path.join(wd, "meta"), "-noGenerateSpecTE", "-config", module + ".cfg"]
    if simulate is not None:
        simdir = os.path.join(wd, "sim")
        os.makedirs(simdir, exist_ok=True)
        cmd += ["-simulate", "file=%s/b,num=%d" % (simdir, simulate)]
        if depth is not None:
            cmd += ["-depth", str(depth)]
    if seed is not None:
        cmd += ["-seed", str(seed)]
    if coverage:
        cmd += ["-coverage", "1"]
    cmd += list(extra_args)
    cmd.append(module + ".tla")
    env = dict(os.environ)
    env.update(env_extra or {})
    res = TlcResult()
    res.cmd = " ".join(cmd)
    out_path = os.path.join(wd, "tlc.out")
    t0 = time.time()
    res.sim_aborted = False
    try:
        with open(out_path, "w") as out:
            if simulate is None:
                p = subprocess.run(cmd, cwd=wd, stdout=out, stderr=subprocess.STDOUT, timeout=timeout, env=env)
                res.returncode = p.returncode
            else:
                # TLC 1.8's simulator compares whole states when it writes a behaviour to a file; when two `op`
                # records of one behaviour hold results of different types (a node id here, an exception record
                # there) that comparison throws, the worker thread dies and TLC waits for it for ever.  The
                # behaviours written before that are complete and are used; the rest of the sample is forgone.
                proc = subprocess.Popen(cmd, cwd=wd, stdout=out, stderr=subprocess.STDOUT, env=env)
                while True:
                    try:
                        proc.wait(timeout=5)
                        break
                    except subprocess.TimeoutExpired:
                        if time.time() - t0 > timeout:
                            proc.kill()
                            raise MachineryFailure("TLC timed out after %ss: %s" % (timeout, module))
                        with open(out_path) as chk:
                            if 'Exception in thread "Thread-' in chk.read():
                                proc.kill()
                                proc.wait()
                                res.sim_aborted = True
                                break
                res.returncode = 0 if res.sim_aborted else proc.returncode
    except subprocess.TimeoutExpired:
        raise MachineryFailure("TLC timed out after %ss: %s" % (timeout, module))
    res.wall_s = time.time() - t0
    res.stdout_path = out_path
    res.workdir = wd
    in_error = False
    err_lines = []
    with open(out_path) as fh:
        for line in fh:
            if want_records and line.startswith(record_prefix):
                try:
                    res.records.append(json.loads(json.loads(line)))
                    continue
                except Exception:
                    res.errors.append("unparsable record: %s" % line[:200])
                    continue
            line = line.rstrip("\n")
            m = _RE_GEN.match(line)
            if m:
                res.generated, res.distinct = int(m.group(1)), int(m.group(2))
                continue
            m = _RE_DEPTH.match(line)
            if m:
                res.depth = int(m.group(1))
                continue
            m = _RE_SIMSTATES.match(line)
            if m:
                res.generated = int(m.group(1))
                continue
            m = _RE_COV.match(line)
            if m:
                res.coverage[m.group(1)] = (int(m.group(7)), int(m.group(8)))
                continue
            if line.startswith("Error:"):
                in_error = True
            if in_error:
                err_lines.append(line)
                if len(err_lines) > 80:
                    in_error = False
    if err_lines:
        text = "\n".join(err_lines)
        if "is violated" in text or "Invariant" in text and "violated" in text:
            res.violation = text
        else:
            res.errors.append(text)
    if res.returncode not in (0, 12, 13) and not res.errors and res.violation is None:
        res.errors.append("TLC exit code %s (see %s)" % (res.returncode, out_path))
    return res


def require_ok(res, what):
    """TLC finished, parsed its spec and found no violation — else MachineryFailure/violation text."""
    if res.errors:
        raise MachineryFailure("%s: TLC error: %s" % (what, res.errors[0][:2000]))
    return res.violation is None
