"""pytest plugin: after every test of the repository's own suite, record every live gtirb.IR (walked through
the public API) so that TLC can judge the structural invariants on the states those tests reached."""
import gc
import json
import os


def pytest_runtest_teardown(item, nextitem):
    out = os.environ.get("VERIF_TEST_RECORDS")
    if not out:
        return
    import gtirb
    from harness import faults
    seen = 0
    with open(out, "a") as fh:
        for o in gc.get_objects():
            try:
                if isinstance(o, gtirb.IR):
                    r = faults.coherence_record(gtirb, o, try_save=False)
                    r["clauses"] = ["Forest", "Cache", "Bytes"]
                    r["pv"] = r["version"]      # not from a file: no header / version rule to apply
                    r["head"] = [71, 84, 73, 82, 66, 0, 0, r["pv"]]
                    r["test"] = item.nodeid
                    fh.write(json.dumps(r) + "\n")
                    seen += 1
            except ReferenceError:
                pass
