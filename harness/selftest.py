"""Smoke test run by setup.sh: the package builds from /repo and TLC runs the spec."""
import sys

from . import build, configs, core


def main():
    g, root, _ = build.build_and_activate()
    ir = g.IR()
    g.Module(name="m", ir=ir)
    r = core.run_tlc_config("Rel_sec", emit=False, workers=4)
    if r.errors or r.violation or r.distinct != 27:
        print("selftest: TLC failed", r.errors[:1], r.violation, r.distinct)
        return 1
    print("selftest ok: gtirb built from %s, TLC explored %d states" % (build.REPO, r.distinct))
    return 0


if __name__ == "__main__":
    sys.exit(main())
