"""Stages shared by the object-model checks (C03 C04 C05 C06 C10 C11 C12 C13 C16 C19)."""
import json
import re

from . import configs, replay, universe
from .build import MachineryFailure
from .core import run_tlc_config

import os
WARM = bool(os.environ.get("VERIF_WARM"))   # setup: only fill the spec-only graph cache

INV_PROP = {"CacheInv": "C03", "ForestInv": "C04", "NameIdxInv": "C10", "RefIdxInv": "C10",
            "BytesInv": "C19", "SymxInv": "C16"}


def _tlc_checked(ctx, name, r, what):
    if r.errors:
        raise MachineryFailure("%s %s: %s" % (what, name, r.errors[0][:1500]))
    ctx.states += r.distinct
    ctx.transitions += r.generated
    if r.violation:
        m = re.search(r"Invariant (\w+) is violated", r.violation)
        inv = m.group(1) if m else "?"
        v = {"kind": "invariant", "props": [INV_PROP.get(inv, ctx.prop)], "op": {"name": inv, "config": name},
             "expected": "invariant holds in the specification", "observed": r.violation[:3000],
             "history": [], "signature": "invariant:%s/%s" % (inv, name)}
        _file(ctx, v)


def _file(ctx, v):
    if ctx.prop in v["props"]:
        ctx.violations.append(v)
    else:
        k = "%s -> %s" % (v["signature"], ",".join(v["props"]))
        ctx.others[k] = ctx.others.get(k, 0) + 1


def stage_mc(ctx, name, *, workers=16, invariants=None, constraints=(), consts=None, timeout=3000):
    """role A: TLC checks the invariants on every reachable state of the configuration"""
    if WARM:
        return None
    r = run_tlc_config(name, emit=False, workers=workers, invariants=invariants, constraints=constraints,
                       consts=consts, timeout=timeout, coverage=True)
    _tlc_checked(ctx, name, r, "model checking")
    never = sorted(k for k, v in r.coverage.items() if v[1] == 0)
    ctx.stages.append({"stage": "model-check", "config": name, "distinct_states": r.distinct,
                       "transitions": r.generated, "depth": r.depth, "wall_s": round(r.wall_s, 1),
                       "actions_never_taken": never, "exhaustive": True})
    ctx.log("mc %s: %d states, %d transitions, depth %d (%.0fs)" % (name, r.distinct, r.generated, r.depth, r.wall_s))
    return r


def _env_factory(ctx, consts, base):
    return lambda: universe.Env(ctx.gtirb, consts, base=base)


def stage_graph(ctx, name, *, bases=(0,), invariants=None, consts=None, on_step=None, max_run=400,
                result=None, env_factory=None, on_run_end=None):
    """roles A+B: TLC explores the configuration exhaustively, checks the invariants and prints
    every transition; each printed transition is then executed on real objects"""
    consts = consts or configs.get(name)
    r = result or run_tlc_config(name, emit=True, invariants=invariants, consts=consts)
    _tlc_checked(ctx, name, r, "transition dump")
    if WARM:
        return None
    if not r.records:
        raise MachineryFailure("no transitions printed for %s" % name)
    G = replay.Graph(r.records)
    st = {"stage": "graph-replay", "config": name, "distinct_states": r.distinct, "transitions_printed": G.n_edges,
          "tlc_wall_s": round(r.wall_s, 1), "graph_from_cache": bool(getattr(r, "from_cache", False)),
          "bases": [], "exhaustive": True}
    for base in bases:
        mk = env_factory(base) if env_factory else _env_factory(ctx, consts, base)
        w = replay.Walker(G, mk, consts["EmitKeys"], seed=ctx.seed, on_step=on_step,
                          max_run=max_run, on_run_end=on_run_end).run()
        for j in w.extra:
            j["config"] = name
            j["base"] = str(base)
            _file(ctx, j)
        for e in G.out:
            for x in e:
                x[2] = False
        ctx.traces += w.runs
        ctx.evaluations += w.steps
        for v in w.violations:
            j = v.to_json()
            j["config"] = name
            j["base"] = str(base)
            _file(ctx, j)
        st["bases"].append({"base": str(base), "steps_executed": w.steps, "walks": w.runs,
                            "edges_not_executed": w.remaining, "divergences": len(w.violations),
                            "ops": dict(w.ops_count)})
        if w.remaining:
            st["exhaustive"] = False
        if w.samples and len(ctx.samples) < 6:
            ctx.samples.append({"config": name, "walk": w.samples[0]})
        ctx.log("graph %s base=%s: %d edges, %d steps in %d walks, %d left, %d divergences" % (
            name, base, G.n_edges, w.steps, w.runs, w.remaining, len(w.violations)))
    ctx.stages.append(st)
    return G


def behaviours(r, keys):
    """behaviours written by `tlc -simulate file=...`: lists of {op, post} (base variables only)"""
    import glob
    import os
    from . import tlaparse
    base = [k for k in keys if k in replay.BASE_KEYS and k != "shadowed"]
    paths = sorted(glob.glob(os.path.join(r.workdir, "sim", "b_*")))
    if getattr(r, "sim_aborted", False) and paths:
        paths = sorted(paths, key=os.path.getmtime)[:-1]      # the behaviour being written when the simulator stopped
    for path in paths:
        text = open(path).read()
        if not text.strip():
            continue
        states = tlaparse.parse_behaviour(text)
        out = []
        for st in states[1:]:
            post = {k: st[k] for k in base}
            if isinstance(st.get("obs"), dict):
                post.update(st["obs"])        # derived fields the spec kept in obs (TrackObs)
            out.append({"op": st["op"], "post": post})
        yield out


def run_behaviour(ctx, env, beh, name, base, on_step=None):
    """execute one behaviour; returns (steps executed, violation json or None)"""
    hist = []
    n = 0
    for rec in beh:
        op = rec["op"]
        hist.append(replay.args_of(op))
        n += 1
        try:
            obs = env.step(op)
            exp_res = replay.norm_res(op, op.get("res", "none"))
            obs_res = replay.norm_res(op, obs)
            if "alts" in op and obs_res != exp_res:
                alts = [replay.norm_res(op, a) for a in op["alts"]]
                if obs_res in alts or (isinstance(obs_res, list) and sorted(obs_res) in [sorted(a) for a in alts if isinstance(a, list)]):
                    return n, None, True  # legal nondeterministic choice: the rest does not apply
            if obs_res != exp_res:
                return n, {"kind": "result", "props": sorted(replay.result_props(op, obs)), "op": hist[-1],
                           "expected": exp_res, "observed": obs, "history": hist,
                           "signature": "result:%s" % "/".join([op["name"]] + ([op["r"]] if "r" in op else []))}, False
            exp_state = universe.canon_state(rec["post"])
            obs_state = env.project([k for k in exp_state if k not in replay.UNOBSERVABLE])
            d = replay.diff_states(exp_state, obs_state)
            if d:
                props = {replay.FIELD_PROP.get(f[0], "C04") for f in d} | ({"C01", "C02"} if op["name"] == "reload" else set())
                if op["name"].startswith(("set.", "list.", "symx.")) and any(f[0] in ("mods", "kids", "par", "symx") for f in d):
                    props.add(replay.op_prop(op["name"]))
                props = sorted(props)
                return n, {"kind": "state", "props": props, "op": hist[-1],
                           "expected": [list(x[:3]) for x in d[:8]], "observed": [[x[0], x[1], x[3]] for x in d[:8]],
                           "history": hist,
                           "signature": "state:%s" % "/".join([op["name"]] + ([op["r"]] if "r" in op else []))}, False
            if on_step:
                on_step(env, op, rec)
        except universe.Unprojectable as ex:
            return n, {"kind": "unprojectable", "props": sorted({replay.op_prop(op["name"]), "C04"}), "op": hist[-1],
                       "expected": None, "observed": str(ex), "history": hist,
                       "signature": "unprojectable:%s" % op["name"]}, False
    return n, None, False


def stage_sim(ctx, name, *, num, depth, bases=(0,), consts=None, invariants=None, on_step=None, seed=None,
              track_obs=False, env_setup=None):
    """role B on a configuration too large to enumerate: TLC -simulate prints random behaviours of
    the specification, each is replayed on real objects"""
    consts = dict(consts or configs.get(name))
    # derived fields are not in a state dump: compare the variables only
    consts["EmitKeys"] = {k for k in consts["EmitKeys"] if k in replay.BASE_KEYS and k != "shadowed"}
    import gzip
    import os
    from . import core
    sd = (ctx.seed if seed is None else seed) + 1
    mod, files, cfgtext = configs.render(name, emit=False, invariants=invariants, consts=consts)
    key = os.path.join(core.CACHE, "sim-%s-%s-%d-%d-%d.json.gz" % (name, core._spec_digest(files, cfgtext), num, depth, sd))
    if os.path.exists(key) and not os.environ.get("VERIF_NO_CACHE"):
        with gzip.open(key, "rt") as fh:
            behs = json.load(fh)
        cached = True
    else:
        r = run_tlc_config(name, emit=False, workers=1, invariants=invariants, consts=consts, simulate=num,
                           depth=depth, seed=sd, timeout=9000)
        if r.errors:
            raise MachineryFailure("simulate %s: %s" % (name, r.errors[0][:1500]))
        behs = list(behaviours(r, consts["EmitKeys"]))
        if getattr(r, "sim_aborted", False):
            ctx.notes.setdefault("simulations_cut_short", {})[name] = "%d of %d behaviours (TLC's simulator stopped, see harness/tlc.py)" % (len(behs), num)
            if not behs:
                raise MachineryFailure("simulate %s: the simulator stopped before the first behaviour was complete" % name)
        os.makedirs(core.CACHE, exist_ok=True)
        tmp = "%s.%d.tmp" % (key, os.getpid())
        with gzip.open(tmp, "wt") as fh:
            json.dump(behs, fh)
        os.replace(tmp, key)
        cached = False
    if WARM:
        return None
    nrec = sum(len(b) for b in behs)
    ctx.transitions += nrec
    st = {"stage": "simulate-replay", "config": name, "behaviours": len(behs), "transitions_printed": nrec,
          "depth": depth, "behaviours_from_cache": cached, "bases": [], "exhaustive": False}
    ctx.exhaustive = False
    for base in bases:
        steps = div = trunc = 0
        ops = {}
        for beh in behs:
            env = universe.Env(ctx.gtirb, consts, base=base)
            if env_setup:
                env_setup(env)
            n, v, t = run_behaviour(ctx, env, beh, name, base, on_step)
            steps += n
            trunc += t
            for rec in beh[:n]:
                ops[rec["op"]["name"]] = ops.get(rec["op"]["name"], 0) + 1
            if v:
                v["config"] = name
                v["base"] = str(base)
                _file(ctx, v)
                div += 1
            else:
                ctx.traces += 1
        ctx.evaluations += steps
        st["bases"].append({"base": str(base), "steps_executed": steps, "divergences": div,
                            "truncated_by_nondeterminism": trunc, "ops": ops})
        ctx.log("simulate %s base=%s: %d behaviours, %d steps, %d divergences" % (name, base, len(behs), steps, div))
    if behs and len(ctx.samples) < 6:
        ctx.samples.append({"config": name, "behaviour": [replay.args_of(x["op"]) for x in behs[0][:12]]})
    ctx.stages.append(st)
    return None


METHOD_PROP = {"byte_intervals_on": "C06", "byte_intervals_at": "C06", "sections_on": "C06", "sections_at": "C06",
               "section_address": "C06", "section_size": "C06", "symbolic_expressions_at": "C13",
               "symbolic_expressions_at_offset": "C13", "block_address": "C19", "contains_offset": "C19",
               "contains_address": "C19", "symbols_named": "C10", "references": "C10"}


def judge_recorded(ctx, name, consts, rec):
    """role C: TLC judges every recorded lookup answer against the spec's fresh-scan operators"""
    from . import judge
    if WARM:
        return []
    rec.close()
    total, bad = judge.run_judge(name, consts, rec.path)
    ctx.evaluations += rec.n_queries
    for b in bad:
        r = b.pop("record")
        v = {"kind": "lookup", "props": [METHOD_PROP.get(b["f"], "C05")],
             "op": {"name": b["f"], "x": b["x"], "q": b["q"]},
             "expected": {"must": b["must"], "may": b["may"]}, "observed": b["ans"],
             "history": rec.hists[b["line"]] if b.get("line") is not None and b["line"] < len(rec.hists) else [],
             "state": r["st"], "base": r.get("base", "0"), "config": name,
             "signature": "lookup:%s/%s" % (b["f"], "point" if b["q"][1] == b["q"][0] + 1 and b["q"][2] == 1 else "range")}
        _file(ctx, v)
    for b in rec.raised:
        _file(ctx, {"kind": "lookup-raised", "props": [METHOD_PROP.get(b["f"], "C05")],
                    "op": {"name": b["f"], "x": b["x"], "q": b["q"]},
                    "expected": "an answer: every point and every positive-step range is a legal query",
                    "observed": {"exc": b["exc"], "msg": b["msg"]}, "history": b["history"], "state": b["st"],
                    "base": b["base"], "config": name, "signature": "lookup-raised:%s/%s" % (b["f"], b["exc"])})
    ctx.stages.append({"stage": "judge-lookups", "config": name, "states_recorded": rec.n_records,
                       "lookups_judged_by_tlc": rec.n_queries, "lookups_with_nonempty_answer": rec.nonempty,
                       "rejected": len(bad), "raised_instead_of_answering": len(rec.raised), "by_method": rec.by_method})
    if rec.samples and len(ctx.samples) < 6:
        ctx.samples.append({"config": name, "lookup": rec.samples[0]})
    ctx.log("judge %s: %d states, %d lookups (%d non-empty), %d rejected" % (
        name, rec.n_records, rec.n_queries, rec.nonempty, len(bad)))
    return bad


def stage_graph_lookups(ctx, name, *, bases=(0,), per_step=8, result=None, consts=None, p_lookup=0.6,
                        always_blocks=False):
    """lookups are issued after a step only with probability p_lookup, so that edits accumulate
    between lookups (the indexes are maintained lazily)"""
    import random
    from . import judge
    consts = consts or configs.get(name)
    for base in bases:
        rec = judge.Recorder(consts, seed=ctx.seed + 17, per_step=per_step, always_blocks=always_blocks)
        rng = random.Random(ctx.seed + 41)
        stage_graph(ctx, name, bases=(base,), consts=consts, result=result,
                    on_step=lambda env, op, sid: rec.record(env, state_key=sid) if rng.random() < p_lookup else None)
        judge_recorded(ctx, name, consts, rec)


def stage_sim_lookups(ctx, name, *, num, depth, bases=(0,), per_step=8, consts=None, p_lookup=0.3):
    import random
    from . import judge
    consts = consts or configs.get(name)
    for base in bases:
        rec = judge.Recorder(consts, seed=ctx.seed + 23, per_step=per_step)
        rng = random.Random(ctx.seed + 43)
        def lookup(env, op, rec=rec):
            # a Lookup action of the specification: the family's methods, answered by the real objects, judged by TLC
            qs = []
            for f in judge.FAM_METHODS[op["fam"]]:
                q = [0, 1, 1] if f in ("section_address", "section_size") else list(op["q"])
                ans = rec.ask_safe(env, f, op["x"], q, False)
                if ans is not None:
                    qs.append({"f": f, "x": op["x"], "q": q, "ans": ans})
            rec.write(env, qs)

        stage_sim(ctx, name, num=num, depth=depth, bases=(base,), consts=consts,
                  env_setup=lambda env: setattr(env, "lookup_hook", lookup),
                  on_step=lambda env, op, r: rec.record(env) if rng.random() < p_lookup else None)
        judge_recorded(ctx, name, consts, rec)


def stage_lazy(ctx, name, *, bases=(0,), consts=None, max_run=60):
    """C12: TLC enumerates every placement of lookups among edits (Lookup actions + lazy-index
    bookkeeping in the state); the walk executes each on real objects, TLC judges the answers, and a
    twin that receives the same edits but no lookups must give the same final answers."""
    from . import judge
    consts = consts or configs.get(name)
    for base in bases:
        rec = judge.Recorder(consts, seed=ctx.seed + 31, per_step=0)
        stats = {"branch": {}, "model_branch_agree": 0, "model_branch_disagree": 0, "twin_comparisons": 0,
                 "twin_answers_compared": 0}
        mk = lambda b: (lambda: judge.LazyEnv(ctx.gtirb, consts, b, rec, stats))  # noqa
        stage_graph(ctx, name, bases=(base,), consts=consts, env_factory=mk, max_run=max_run,
                    on_run_end=lambda env, hist: env.finish(hist))
        judge_recorded(ctx, name, consts, rec)
        ctx.stages.append({"stage": "lazy-schedules", "config": name, "base": str(base),
                           "get_branches_taken_in_code(hook)": stats["branch"],
                           "spec_branch_prediction_agreed": stats["model_branch_agree"],
                           "spec_branch_prediction_disagreed(diagnostic only)": stats["model_branch_disagree"],
                           "twin_final_comparisons": stats["twin_comparisons"],
                           "twin_answers_compared": stats["twin_answers_compared"]})
        ctx.log("lazy %s: get() branches %s, twin comparisons %d (%d answers), model/hook agree %d disagree %d" % (
            name, stats["branch"], stats["twin_comparisons"], stats["twin_answers_compared"],
            stats["model_branch_agree"], stats["model_branch_disagree"]))
        ctx.notes.setdefault("get_branches", {}).update({name: dict(stats["branch"])})


def stage_repo_tests(ctx):
    """code -> spec on executions nobody wrote for this purpose: the repository's own test-suite runs
    against the package built from /repo under a recording plugin; every IR alive after every test is
    walked through the public API and TLC judges Forest / Cache / Bytes on it (CoherentJudge.tla)."""
    import shutil
    import subprocess
    import sys
    from . import faults
    from .build import REPO, workdir
    from .core import VERIF
    if WARM:
        return
    wd = workdir("gtirbverif-rt-")
    shutil.copytree(os.path.join(REPO, "python", "tests"), os.path.join(wd, "tests"))
    recs = os.path.join(wd, "records.ndjson")
    env = dict(os.environ, VERIF_TEST_RECORDS=recs,
               PYTHONPATH=os.pathsep.join([ctx.pkg_root, VERIF]))
    p = subprocess.run([sys.executable, "-m", "pytest", "-q", "-p", "no:cacheprovider", "-p", "harness.testplugin", "tests"],
                       cwd=wd, env=env, capture_output=True, text=True, timeout=900)
    tail = (p.stdout or "").strip().splitlines()[-1:] or [""]
    records = [json.loads(x) for x in open(recs)] if os.path.exists(recs) else []
    bad, states = faults.judge_coherence(records)
    ctx.states += states
    ctx.traces += len(records)
    for i, failing in bad:
        _file(ctx, {"kind": "test-state", "props": ["C03" if failing == ["Cache"] else "C04"],
                    "op": {"name": "repository test", "test": records[i].get("test")},
                    "expected": "Forest, Cache, Bytes hold", "observed": {"failing": failing},
                    "history": [], "signature": "teststate:%s" % ",".join(sorted(failing))})
    ctx.stages.append({"stage": "repository-tests-judged", "pytest": tail[0], "irs_recorded": len(records),
                       "rejected_by_tlc": len(bad)})
    ctx.log("repository tests: %s; %d live IRs recorded, %d rejected by TLC" % (tail[0], len(records), len(bad)))
